#!/bin/bash
# run.sh <Cxx> quick|thorough            run the check of one property
# run.sh <Cxx> replay <file>             run one saved program without the generator
# Exit: 0 held, 1 violation (VIOLATION line), 2 inconclusive infrastructure problem.
set -u
cd "$(dirname "$0")"
ROOT=$(pwd)
export GOFLAGS=-mod=mod GOPROXY=off GOSUMDB=off GOTOOLCHAIN=local
export VERIF_ROOT="$ROOT"
PROP=${1:?property id}
MODE=${2:-quick}
DRV="$ROOT/bin/verifdrv"
if [ ! -x "$DRV" ] || [ -n "$(find "$ROOT/harness/cmd" -newer "$DRV" -name '*.go' 2>/dev/null)" ]; then
  mkdir -p "$ROOT/bin"
  (cd "$ROOT/harness" && cp -f /repo/go.sum go.sum 2>/dev/null; go build -o "$DRV" ./cmd/verifdrv) || { echo "INCONCLUSIVE: cannot build driver"; exit 2; }
fi
case "$MODE" in
  quick|thorough) exec "$DRV" -prop "$PROP" -tier "$MODE" "${@:3}" ;;
  replay) exec "$DRV" -prop "$PROP" -tier quick -replay "${3:?file}" ;;
  *) echo "usage: run.sh <Cxx> quick|thorough|replay <file>"; exit 2 ;;
esac
