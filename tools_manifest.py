#!/usr/bin/env python3
"""Generates MANIFEST.json from the table below (keeps it valid and in one place)."""
import json, sys

NOTE_SCHED = "Merger cycles, persister rounds (held at file-layer gates), compactions and reopen points are generated operations executed by the real background goroutines under the schedule controller."
CLAIMED = {
 "C01": ("exploration", "model-based PBT: rapid-generated histories under a schedule controller, compared with a reference ordered map after every step",
         "Generated histories of batches, merger cycles, persister rounds held at file-layer gates and drain+reopen, over in-memory / mossStore / application lower-level backings and the option grid; after every step a fresh snapshot is compared two-sidedly (Get of every key incl. never-set neighbours, full iteration as a sequence) with a reference map. Exploration is the right level: the property is universal over histories x schedules x configurations and only a sample can be executed.",
         "5.C01"),
 "C02": ("exploration", "model-based PBT: generated histories with snapshot/iterator handles; every re-read compared with the handle's first read",
         "Generated histories in which collection, child and store snapshots and bounded iterators are opened at generated points and re-read after later batches, merger cycles, persister rounds, full compactions (file replaced and unlinked), Collection.Close and Store.Close; each re-read (all keys by Get, full iteration, children recursively, each iterator step against a model iterator) must equal the first read. " + NOTE_SCHED,
         "5.C02"),
 "C03": ("exploration", "concurrent PBT: generated multi-writer / multi-reader programs with a schedule-independent prefix oracle, schedules sampled with generated perturbations",
         "Free-running collections with 1-4 writers on disjoint key prefixes (top level and child collections), snapshot readers and a Collection.Get reader, small MaxPreMergerBatches so writers block; every snapshot must contain, per writer, exactly the effects of the prefix named by that writer's marker key, never less than what had returned before the snapshot started and never shrinking. The oracle does not depend on the schedule; schedules themselves are sampled (generated yields/sleeps, GOMAXPROCS), not enumerated - a violation needing one specific preemption may be missed.",
         "5.C03, 6"),
 "C04": ("exploration", "model-based PBT: generated histories with close/reopen cycles at generated points; reopened content compared with the reference prefix states",
         "Store-backed histories with caught-up (event-confirmed drain) and early close points, persister held at gates, options changed on reopen, immediate reopen without waiting for pending unlinks; caught-up reopen must equal the full reference, early reopen must equal the reference after some batch prefix no shorter than the last completed round. " + NOTE_SCHED,
         "5.C04"),
 "C05": ("fault_enumeration", "crash-image enumeration from recorded file-operation traces of generated workloads; every image reopened and compared with the reference prefix states",
         "A generated workload runs once under a recording File wrapper; from the trace, for every crash point, the process-kill image, torn variants of the in-flight write and (syncing on) the power-loss images - unsynced writes applied as subsets of 4096-byte block pieces, exhaustively up to 10 pieces - are built and reopened; the open must succeed and the content must be the reference after a batch prefix no shorter than the last round completed with syncing. Crash points are enumerated exhaustively per trace, block subsets exhaustively when small; traces and masks beyond that are generated.",
         "5.C05"),
 "C06": ("fault_enumeration", "fault injection through a moss.File wrapper at enumerated / generated file-operation indices of generated workloads, checked against the reference model after every step",
         "A generated workload runs fault-free once to number its file operations and then once per injected fault (site x kind by operation: open/create, WriteAt error, short write, Sync, Stat x shape: single, burst, persistent until a later step); after every step the collection must equal the reference and the store's snapshot the reference prefix covered by rounds that reported success; after a failed round a copy of the directory must reopen to a prefix no older than before; after faults stop persistence must catch up to the full reference, also after reopen. Sites are enumerated exhaustively (up to 150 per workload) in the thorough tier and sampled in the quick tier.",
         "5.C06"),
 "C07": ("exploration", "model-based PBT + metamorphic check around compactions detected from Store.Stats deltas",
         "Store-backed histories over all compaction concerns and small level parameters; collection and store content are compared with the reference after every step (so content is identical before and after each compaction); after a full compaction the store snapshot is iterated with IncludeDeletions (no marker, strictly ascending, nothing above segment level 0 at any nesting level); at the end the directory must hold one data file. " + NOTE_SCHED,
         "5.C07"),
 "C08": ("exploration", "model-based PBT with an order- and structure-sensitive merge operator as oracle",
         "Histories of Set/Del/Merge over 1-4 keys under a non-commutative, non-associative operator; every read (snapshot Get and iteration after every step, store / lower-level content after every completed round, content after reopen) must equal the model's left fold. " + NOTE_SCHED,
         "5.C08"),
 "C10": ("exploration", "relational PBT: six read paths compared with each other on generated histories",
         "After every step of a generated history and for every key of the universe, Collection.Get, Get on a fresh Snapshot (with and without NoCopyValue) and the entry/absence in a full iteration must agree; values returned by copying Gets are re-compared after everything is closed and unmapped. " + NOTE_SCHED,
         "5.C10"),
 "C11": ("exploration", "model-based PBT over a tree of child collections",
         "Histories over child names {A,B,C} with nesting <= 3 (create, also by an empty child batch; write; delete; recreate; delete parent with grandchildren; child-only batches) under all controller steps, compaction concerns and reopen; names as a set, nil snapshots for unknown names and the full content of every child are compared with the model tree for the collection after every step, for the store after every completed round and after reopen. " + NOTE_SCHED,
         "5.C11"),
 "C15": ("exploration", "model-based PBT with resource accounting through /proc/self/fd and /proc/self/maps",
         "Store-backed histories opening and closing collection, child and store snapshots and iterators relative to rounds, compactions and Close calls, with a generated final close order; open handles must keep returning their first-read content, and after the last close no descriptor or mapping of the case directory may remain and the directory must hold one data file. " + NOTE_SCHED,
         "5.C15"),
 "C09": ("exploration", "model-based PBT: generated iterator call sequences compared call by call with a model iterator",
         "Generated snapshot shapes (single/many segments, tombstones first/last/consecutive, lower level present/exhausted/only source; collection, child and store snapshots), generated bounds (nil, non-nil empty, equal, inverted, sharing prefixes, neighbours of keys) and call sequences of Next/SeekTo/Current incl. backward seeks and seeks after exhaustion; after every call the return value, key and value must equal a model iterator's. " + NOTE_SCHED,
         "5.C09"),
 "C12": ("exploration", "model-based PBT over SnapshotPrevious / SnapshotRevert programs with an oracle of the store's exposed history",
         "Store-backed programs of batches, persistence rounds, history walks of generated depth, reverts to generated targets (collection closed first, reopened on the store afterwards), reopen and continuation; the oracle records what the store exposed after every footer-writing round (from Store.Stats deltas), reset by compaction; walks must yield it newest-first and completely, reverts must succeed for snapshots obtained since the last compaction and make the target the current and durable content. " + NOTE_SCHED,
         "5.C12"),
 "C13": ("exploration", "model-based PBT against an application lower level implementing the documented update protocol, with generated update failures",
         "Collection over an application-supplied lower level (immutable ordered-map snapshots, children supported) that applies every `higher` snapshot by the documented protocol; generated histories of Set/Del/Merge batches, merger cycles, parked / failing / retried LowerLevelUpdate calls, CachePersisted on/off, plus free-running cases with MaxDirtyOps / MaxDirtyKeyValBytes back-pressure; the lower level must equal the reference prefix after every completed update, a failed update must be followed by an identical offer, successful updates must leave non-decreasing batch-prefix states, and after draining the lower level must equal the full reference. " + NOTE_SCHED,
         "5.C13"),
 "C14": ("exploration", "differential + model-based PBT: the same persisted directory read under generated key-index settings",
         "Generated key sets (empty key, shared prefixes, variable lengths) persisted as 1-3 segments and optionally fully compacted; a copy of the directory is opened with the index off (defaults) and with generated quota / minimum-key-bytes settings spanning hop = 1..n and truncated indexes; every present key, neighbours, below-first / above-last and generated probes are read by Get, and ranges [p,nil), [nil,p), [p,q) are iterated; all must equal the reference under every setting.",
         "5.C14"),
 "C16": ("exploration", "concurrent PBT under a watchdog (stall = violation) plus a deterministic admission-bound case with the merger parked by the schedule controller",
         "Free-running cases with blocked writers, slow / failing / stalling lower level, synchronous notifiers and a Close at a generated point, every call under a watchdog; Close must release blocked writers with ErrClosed, be final for NewBatch/Snapshot/Get, and a synchronous NotifyMerger must return before, during and after it. The admission bound is checked deterministically: with the merger parked, of MaxPreMergerBatches+k concurrent non-empty batches (top-level, mixed, child-only) at most MaxPreMergerBatches return and the rest are counted as waiting. Interleavings are sampled; a deadlock needing a rare interleaving may be missed.",
         "5.C16, 6"),
 "C17": ("exploration", "Go race detector (-race build) over generated concurrent programs with pollers",
         "The concurrent programs of C03/C16 plus pollers for Stats, Histograms, Options, Store.Stats, Store.Snapshot and iterators, over the option grid, in a -race build; any data race report is a violation. Only races on executed paths and sampled schedules are seen.",
         "5.C17, 6"),
 "C18": ("exploration", "differential PBT: ReadOnly open of generated (and tampered) directories through a recording File wrapper, compared with a normal open of a copy; directory hashed before/after",
         "Directories produced by generated writer histories (several data files with KeepFiles, early closes) and tampered with (incomplete / garbage newer files, torn newest file, junk); a generated program of reads, batches, notifications, Store.Persist, SnapshotPrevious and closes runs against the ReadOnly store; the directory listing with SHA-256 must be unchanged after the open and after every step, the wrapper must see only read-type operations, and the content served must equal a normal open of a copy.",
         "5.C18"),
 "C19": ("exploration", "model-based PBT with hostile/boundary byte strings + metamorphic twins (plain vs Alloc, DeferredSort, CachePersisted)",
         "Generated histories whose keys and values include the empty string, 0x00/0xFF, the store's magic markers and footer-header look-alikes, page-boundary-sized values, the 2^24-1 byte key and oversize operations that must be rejected inside a batch; each program also runs as its twin with plain and Alloc-built operations swapped and DeferredSort / CachePersisted flipped; collection, store and reopened content are compared byte-exactly and in order with the reference at every stage. " + NOTE_SCHED,
         "5.C19"),
 "C20": ("exploration", "model-based PBT: Stats() sampled at every quiescent step, implication checked against the lower level's own snapshot and a reopened copy",
         "Histories incl. child-only and delete-only batches over mossStore and an application lower level; whenever the three dirty gauges are zero the lower level must equal the full reference (and a copy of the directory must reopen to it); after the last batch the gauges must reach zero within 6 controller cycles. " + NOTE_SCHED,
         "5.C20"),
}
NOT_YET = {}

def main():
    props = [json.loads(l) for l in open('/verif/properties.jsonl')]
    checks, na = [], []
    for p in props:
        pid = p['id']
        if pid in CLAIMED:
            level, tech, text, ref = CLAIMED[pid]
            checks.append({
              "property_id": pid,
              "quick_cmd": f"./run.sh {pid} quick",
              "thorough_cmd": f"./run.sh {pid} thorough",
              "evidence_file": f"/verif/evidence/{pid}.json",
              "replay_cmd_template": f"./run.sh {pid} replay {{path}}",
              "engine": "mossverif",
              "level_claimed": {"category": level, "text": text, "design_ref": "DESIGN.md section " + ref},
              "level_note": "Held on everything explored, nothing proved. Trusted base: the reference model in harness/mv/model.go, the schedule controller (public knobs only: blocking OnEvent/OnError callbacks, NotifyMerger, a moss.File wrapper), rapid v1.3.0, the Go toolchain. Concurrency inside one merger cycle / persist round is sampled, not enumerated.",
              "technique": tech,
            })
        else:
            na.append({"property_id": pid, "reason": NOT_YET.get(pid, "check not built yet in this session; the design (DESIGN.md section 5) covers it with the same technique family")})
    m = {
      "version": 1,
      "setup_cmd": "cd /verif/harness && cp -f /repo/go.sum go.sum && GOFLAGS=-mod=mod GOPROXY=off GOSUMDB=off GOTOOLCHAIN=local go build -o /verif/bin/verifdrv ./cmd/verifdrv && GOFLAGS=-mod=mod GOPROXY=off GOSUMDB=off GOTOOLCHAIN=local go vet ./mv",
      "hooks": {
        "guard": "verif",
        "enable": "no instrumentation hook exists: the checks use public API only (OnEvent/OnError callbacks, NotifyMerger, StoreOptions.OpenFile); the build tag 'verif' is reserved and currently guards nothing",
        "baseline_off_cmd": "cd /repo && go test -vet=off -count=1 -timeout 25m ./...",
        "source_commits": [],
        "add_only": True,
      },
      "engines": [{"name": "mossverif", "path": "/verif/harness", "serves_properties": [c["property_id"] for c in checks],
                   "kind_free_text": "Go module: rapid v1.3.0 generators + reference model + schedule controller + moss.File wrapper + sharding driver (cmd/verifdrv)"}],
      "checks": checks,
      "not_applicable": na,
      "notes": "Technique family: property-based testing and fuzzing. Exit codes: 0 held (KNOWN-FINDING lines possible), 1 violation with a VIOLATION line, 2 inconclusive infrastructure problem. Known findings: /verif/known_findings.json.",
    }
    if not na:
        del m["not_applicable"]
    json.dump(m, open('/verif/MANIFEST.json', 'w'), indent=1)
    print("claimed", len(checks), "not_applicable", len(na))

if __name__ == '__main__':
    main()
