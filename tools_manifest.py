#!/usr/bin/env python3
"""Generates MANIFEST.json from the table below (keeps it valid and in one place)."""
import json, sys

CLAIMED = {
 "C01": ("exploration", "model-based PBT: rapid-generated histories under a schedule controller, compared with a reference ordered map after every step",
         "Generated histories of batches, merger cycles, persister rounds held at file-layer gates and drain+reopen, over in-memory / mossStore / application lower-level backings and the option grid; after every step a fresh snapshot is compared two-sidedly (Get of every key incl. never-set neighbours, full iteration as a sequence) with a reference map. Exploration is the right level: the property is universal over histories x schedules x configurations and only a sample can be executed.",
         "5.C01"),
}
NOT_YET = {}

def main():
    props = [json.loads(l) for l in open('/verif/properties.jsonl')]
    checks, na = [], []
    for p in props:
        pid = p['id']
        if pid in CLAIMED:
            level, tech, text, ref = CLAIMED[pid]
            checks.append({
              "property_id": pid,
              "quick_cmd": f"./run.sh {pid} quick",
              "thorough_cmd": f"./run.sh {pid} thorough",
              "evidence_file": f"/verif/evidence/{pid}.json",
              "replay_cmd_template": f"./run.sh {pid} replay {{path}}",
              "engine": "mossverif",
              "level_claimed": {"category": level, "text": text, "design_ref": "DESIGN.md section " + ref},
              "level_note": "Held on everything explored, nothing proved. Trusted base: the reference model in harness/mv/model.go, the schedule controller (public knobs only: blocking OnEvent/OnError callbacks, NotifyMerger, a moss.File wrapper), rapid v1.3.0, the Go toolchain. Concurrency inside one merger cycle / persist round is sampled, not enumerated.",
              "technique": tech,
            })
        else:
            na.append({"property_id": pid, "reason": NOT_YET.get(pid, "check not built yet in this session; the design (DESIGN.md section 5) covers it with the same technique family")})
    m = {
      "version": 1,
      "setup_cmd": "cd /verif/harness && cp -f /repo/go.sum go.sum && GOFLAGS=-mod=mod GOPROXY=off GOSUMDB=off GOTOOLCHAIN=local go build -o /verif/bin/verifdrv ./cmd/verifdrv && GOFLAGS=-mod=mod GOPROXY=off GOSUMDB=off GOTOOLCHAIN=local go vet ./mv",
      "hooks": {
        "guard": "verif",
        "enable": "no instrumentation hook exists: the checks use public API only (OnEvent/OnError callbacks, NotifyMerger, StoreOptions.OpenFile); the build tag 'verif' is reserved and currently guards nothing",
        "baseline_off_cmd": "cd /repo && go test -vet=off -count=1 -timeout 25m ./...",
        "source_commits": [],
        "add_only": True,
      },
      "engines": [{"name": "mossverif", "path": "/verif/harness", "serves_properties": [c["property_id"] for c in checks],
                   "kind_free_text": "Go module: rapid v1.3.0 generators + reference model + schedule controller + moss.File wrapper + sharding driver (cmd/verifdrv)"}],
      "checks": checks,
      "not_applicable": na,
      "notes": "Technique family: property-based testing and fuzzing. Exit codes: 0 held (KNOWN-FINDING lines possible), 1 violation with a VIOLATION line, 2 inconclusive infrastructure problem. Known findings: /verif/known_findings.json.",
    }
    if not na:
        del m["not_applicable"]
    json.dump(m, open('/verif/MANIFEST.json', 'w'), indent=1)
    print("claimed", len(checks), "not_applicable", len(na))

if __name__ == '__main__':
    main()
