// verifdrv builds the check binary from /repo's current working tree, runs
// the replay tier, the known-finding probes and the sharded generated search
// for one property, aggregates the evidence and maps outcomes to exit codes:
// 0 held, 1 violation (with a VIOLATION line), 2 inconclusive infrastructure.
package main

import (
	"bytes"
	"crypto/sha256"
	"encoding/hex"
	"encoding/json"
	"flag"
	"fmt"
	"hash/fnv"
	"os"
	"os/exec"
	"path/filepath"
	"sort"
	"strconv"
	"strings"
	"sync"
	"time"
)

type propCfg struct {
	Test     string
	Quick    int // total rapid checks, quick tier
	Thorough int
	Shards   int
	Race     bool
	Level    string
	// per-shard wall-clock limit (infrastructure timeout -> exit 2)
	QuickTimeout    time.Duration
	ThoroughTimeout time.Duration
	Fuzz            string // native fuzz target run in the thorough tier
	FuzzTime        time.Duration
	Assumptions     []string
	StallIsViolation bool
}

var props = map[string]*propCfg{}

func reg(id string, c *propCfg) {
	if c.Shards == 0 {
		c.Shards = 16
	}
	if c.Level == "" {
		c.Level = "exploration"
	}
	if c.QuickTimeout == 0 {
		c.QuickTimeout = 15 * time.Minute
	}
	if c.ThoroughTimeout == 0 {
		c.ThoroughTimeout = 100 * time.Minute
	}
	props[id] = c
}

func init() {
	reg("C01", &propCfg{Test: "TestC01", Quick: 5000, Thorough: 80000})
	reg("C02", &propCfg{Test: "TestC02", Quick: 2000, Thorough: 40000})
	reg("C03", &propCfg{Test: "TestC03", Quick: 960, Thorough: 12000})
	reg("C04", &propCfg{Test: "TestC04", Quick: 2000, Thorough: 40000})
	reg("C05", &propCfg{Test: "TestC05", Quick: 200, Thorough: 2400, Level: "fault_enumeration",
		Assumptions: []string{"crash model: un-synced writes reach the disk as any subset of 4096-byte blocks, file length anywhere between the synced length and the highest applied block, directory operations ordered and durable; with NoSync process-kill only"}})
	reg("C06", &propCfg{Test: "TestC06", Quick: 320, Thorough: 560, Level: "fault_enumeration"})
	reg("C07", &propCfg{Test: "TestC07", Quick: 1500, Thorough: 24000})
	reg("C08", &propCfg{Test: "TestC08", Quick: 2500, Thorough: 50000})
	reg("C09", &propCfg{Test: "TestC09", Quick: 12000, Thorough: 200000, Fuzz: "FuzzC09", FuzzTime: 120 * time.Second})
	reg("C10", &propCfg{Test: "TestC10", Quick: 5000, Thorough: 80000})
	reg("C11", &propCfg{Test: "TestC11", Quick: 2500, Thorough: 50000})
	reg("C12", &propCfg{Test: "TestC12", Quick: 2000, Thorough: 30000})
	reg("C13", &propCfg{Test: "TestC13", Quick: 8000, Thorough: 120000})
	reg("C14", &propCfg{Test: "TestC14", Quick: 1200, Thorough: 16000, Fuzz: "FuzzC14", FuzzTime: 120 * time.Second})
	reg("C15", &propCfg{Test: "TestC15", Quick: 1500, Thorough: 30000})
	reg("C16", &propCfg{Test: "TestC16", Quick: 2400, Thorough: 24000, StallIsViolation: true})
	reg("C17", &propCfg{Test: "TestC17", Quick: 480, Thorough: 6000, Race: true})
	reg("C18", &propCfg{Test: "TestC18", Quick: 2000, Thorough: 30000})
	reg("C19", &propCfg{Test: "TestC19", Quick: 800, Thorough: 12000, Fuzz: "FuzzC19", FuzzTime: 120 * time.Second})
	reg("C20", &propCfg{Test: "TestC20", Quick: 5000, Thorough: 80000})
}

// ---- shard report (mirror of mv.ShardOut) ----

type shardOut struct {
	Prop        string         `json:"prop"`
	Evaluations int            `json:"evaluations"`
	Nontrivial  []string       `json:"nontrivial"`
	Labels      map[string]int `json:"labels"`
	Samples     []string       `json:"samples"`
	Excluded    int            `json:"excluded"`
	Extra       map[string]int `json:"extra"`
	Rule        string         `json:"rule"`
	Known       []string       `json:"known"`
	Notes       []string       `json:"notes"`
}

type finding struct {
	ID         string   `json:"id"`
	Status     string   `json:"status"` // open | fixed
	Properties []string `json:"properties"`
	What       string   `json:"what"`
	Replay     string   `json:"replay"`  // relative to /verif
	Exclude    string   `json:"exclude"` // generator exclusion flag while open
	Commit     string   `json:"commit,omitempty"`
	Line       string   `json:"line,omitempty"`
}

var verifRoot = "/verif"

func env(extra ...string) []string {
	e := os.Environ()
	e = append(e, "GOFLAGS=-mod=mod", "GOPROXY=off", "GOSUMDB=off", "GOTOOLCHAIN=local")
	return append(e, extra...)
}

func fatal2(format string, a ...interface{}) {
	fmt.Printf("INCONCLUSIVE: "+format+"\n", a...)
	os.Exit(2)
}

func deriveSeed(seed int64, prop string, shard int) uint64 {
	h := fnv.New64a()
	fmt.Fprintf(h, "%d/%s/%d", seed, prop, shard)
	return 1 + h.Sum64()%(1<<62)
}

func saveFailure(prop string, src string) string {
	b, err := os.ReadFile(src)
	if err != nil {
		return src
	}
	sum := sha256.Sum256(b)
	dir := filepath.Join(verifRoot, "failures", prop)
	os.MkdirAll(dir, 0755)
	dst := filepath.Join(dir, hex.EncodeToString(sum[:6])+".json")
	os.WriteFile(dst, b, 0644)
	return dst
}

type result struct {
	shard    int
	exit     int
	out      []byte
	timedOut bool
	wall     time.Duration
}

func runProc(bin string, args []string, envs []string, dir string, timeout time.Duration) (int, []byte, bool) {
	cmd := exec.Command(bin, args...)
	cmd.Env = envs
	cmd.Dir = dir
	var buf bytes.Buffer
	cmd.Stdout = &buf
	cmd.Stderr = &buf
	if err := cmd.Start(); err != nil {
		return 2, []byte(err.Error()), false
	}
	done := make(chan error, 1)
	go func() { done <- cmd.Wait() }()
	select {
	case err := <-done:
		if err == nil {
			return 0, buf.Bytes(), false
		}
		if ee, ok := err.(*exec.ExitError); ok {
			return ee.ExitCode(), buf.Bytes(), false
		}
		return 2, buf.Bytes(), false
	case <-time.After(timeout):
		cmd.Process.Kill()
		<-done
		return -1, buf.Bytes(), true
	}
}

func main() {
	prop := flag.String("prop", "", "property id")
	tier := flag.String("tier", "quick", "quick|thorough")
	replay := flag.String("replay", "", "replay one saved program")
	checksOverride := flag.Int("checks", 0, "override total checks")
	shardsOverride := flag.Int("shards", 0, "override shard count")
	noEvidence := flag.Bool("noevidence", false, "do not write the evidence file")
	flag.Parse()
	if os.Getenv("VERIF_ROOT") != "" {
		verifRoot = os.Getenv("VERIF_ROOT")
	}
	if t := os.Getenv("VERIF_TIER"); t != "" && *tier == "" {
		*tier = t
	}
	pc, ok := props[*prop]
	if !ok {
		fatal2("unknown property %q", *prop)
	}
	seed := int64(1)
	if s := os.Getenv("VERIF_SEED"); s != "" {
		if v, err := strconv.ParseInt(s, 10, 64); err == nil {
			seed = v
		}
	}
	start := time.Now()

	scratchBase := "/dev/shm"
	if st, err := os.Stat(scratchBase); err != nil || !st.IsDir() {
		scratchBase = os.TempDir()
	}
	scratch, err := os.MkdirTemp(scratchBase, "verifdrv-"+*prop+"-")
	if err != nil {
		fatal2("scratch dir: %v", err)
	}
	defer os.RemoveAll(scratch)

	// 1. build from /repo's current working tree
	bin := filepath.Join(scratch, "mv.test")
	hdir := filepath.Join(verifRoot, "harness")
	bargs := []string{"test", "-c", "-o", bin}
	// VERIF_REPO (sensitivity runs only): build against a scratch copy of the
	// repository instead of /repo, through a temporary -modfile.
	if alt := os.Getenv("VERIF_REPO"); alt != "" {
		gm, err := os.ReadFile(filepath.Join(hdir, "go.mod"))
		if err != nil {
			fatal2("go.mod: %v", err)
		}
		gm = bytes.Replace(gm, []byte("=> /repo"), []byte("=> "+alt), 1)
		mf := filepath.Join(scratch, "alt.mod")
		os.WriteFile(mf, gm, 0644)
		if gs, err := os.ReadFile(filepath.Join(hdir, "go.sum")); err == nil {
			os.WriteFile(filepath.Join(scratch, "alt.sum"), gs, 0644)
		}
		bargs = append(bargs, "-modfile="+mf)
		fmt.Printf("note: building against %s instead of /repo\n", alt)
	}
	if pc.Race {
		bargs = append(bargs, "-race")
	}
	bargs = append(bargs, "./mv")
	code, out, to := runProc("go", bargs, env(), hdir, 10*time.Minute)
	if code != 0 || to {
		fmt.Printf("%s\n", out)
		os.RemoveAll(scratch)
		fatal2("building the check binary failed (exit %d)", code)
	}

	exitCode := 0
	violations := 0
	printViolation := func(path string, why string) {
		fmt.Printf("VIOLATION property=%s replay=%s\n", *prop, path)
		if why != "" {
			fmt.Printf("  %s\n", why)
		}
		violations++
		exitCode = 1
	}
	baseEnv := func(extra ...string) []string {
		return env(append([]string{"VERIF_TIER=" + *tier, "VERIF_PROP=" + *prop, "TMPDIR=" + scratch}, extra...)...)
	}

	failMessage := func(path string) string {
		b, err := os.ReadFile(path)
		if err != nil {
			return ""
		}
		var rec struct {
			Message string `json:"message"`
		}
		json.Unmarshal(b, &rec)
		if len(rec.Message) > 600 {
			rec.Message = rec.Message[:600] + "..."
		}
		return rec.Message
	}

	// single replay mode
	if *replay != "" {
		if !filepath.IsAbs(*replay) {
			cwd, _ := os.Getwd()
			*replay = filepath.Join(cwd, *replay)
		}
		if _, err := os.Stat(*replay); err != nil {
			fatal2("replay file: %v", err)
		}
		failFile := filepath.Join(scratch, "replay.fail.json")
		code, out, to := runProc(bin, []string{"-test.run", "^TestReplay$", "-test.count=1", "-test.timeout=10m"},
			baseEnv("VERIF_REPLAY="+*replay, "VERIF_FAIL="+failFile), hdir, 12*time.Minute)
		if to {
			fatal2("replay timed out")
		}
		if code != 0 {
			fmt.Printf("%s\n", tail(out, 40))
			printViolation(*replay, failMessage(failFile))
			os.RemoveAll(scratch)
			os.Exit(1)
		}
		fmt.Printf("replay of %s: property held\n", *replay)
		os.RemoveAll(scratch)
		os.Exit(0)
	}

	// 2. known findings: probes + exclusions
	var findings []finding
	if b, err := os.ReadFile(filepath.Join(verifRoot, "known_findings.json")); err == nil {
		var kf struct {
			Findings []finding `json:"findings"`
		}
		if err := json.Unmarshal(b, &kf); err != nil {
			fatal2("known_findings.json: %v", err)
		}
		findings = kf.Findings
	}
	var excludes []string
	var knownLines []string
	for _, f := range findings {
		if f.Status != "open" {
			continue
		}
		applies := false
		for _, p := range f.Properties {
			if p == *prop {
				applies = true
			}
		}
		if !applies {
			continue
		}
		rp := filepath.Join(verifRoot, f.Replay)
		code, _, to := runProc(bin, []string{"-test.run", "^TestReplay$", "-test.count=1", "-test.timeout=5m"},
			baseEnv("VERIF_REPLAY="+rp, "VERIF_PROBE="+f.ID), hdir, 6*time.Minute)
		if to {
			fatal2("known-finding probe %s timed out", f.ID)
		}
		if code != 0 {
			line := fmt.Sprintf("KNOWN-FINDING: property=%s %s: %s", *prop, f.ID, f.What)
			fmt.Println(line)
			knownLines = append(knownLines, line)
			for _, x := range strings.Split(f.Exclude, ",") {
				if x != "" {
					excludes = append(excludes, x)
				}
			}
		} else {
			fmt.Printf("note: recorded finding %s no longer reproduces; its generator exclusion is lifted for this run\n", f.ID)
		}
	}
	exclEnv := "VERIF_EXCLUDE=" + strings.Join(excludes, ",")

	// 3. replay tier (committed regression programs)
	replays, _ := filepath.Glob(filepath.Join(verifRoot, "replays", *prop, "*.json"))
	sort.Strings(replays)
	replayed := 0
	for _, rp := range replays {
		failFile := filepath.Join(scratch, "replay.fail.json")
		os.Remove(failFile)
		code, out, to := runProc(bin, []string{"-test.run", "^TestReplay$", "-test.count=1", "-test.timeout=10m"},
			baseEnv("VERIF_REPLAY="+rp, "VERIF_FAIL="+failFile, exclEnv), hdir, 12*time.Minute)
		if to {
			fatal2("replay %s timed out", rp)
		}
		replayed++
		if code == 3 {
			if pc.StallIsViolation {
				printViolation(rp, "stall: "+failMessage(failFile+".stall"))
			} else {
				fatal2("replay %s stalled", rp)
			}
		} else if code != 0 {
			fmt.Printf("%s\n", tail(out, 30))
			printViolation(rp, failMessage(failFile))
		}
	}

	// 4. sharded generated search
	total := pc.Quick
	timeout := pc.QuickTimeout
	if *tier == "thorough" {
		total = pc.Thorough
		timeout = pc.ThoroughTimeout
	}
	if *checksOverride > 0 {
		total = *checksOverride
	}
	shards := pc.Shards
	if *shardsOverride > 0 {
		shards = *shardsOverride
	}
	if total < shards {
		shards = total
	}
	per := (total + shards - 1) / shards
	results := make([]result, shards)
	var wg sync.WaitGroup
	for i := 0; i < shards; i++ {
		wg.Add(1)
		go func(i int) {
			defer wg.Done()
			sdir := filepath.Join(scratch, fmt.Sprintf("s%02d", i))
			os.MkdirAll(sdir, 0755)
			s := deriveSeed(seed, *prop, i)
			args := []string{"-test.run", "^" + pc.Test + "$", "-test.count=1",
				"-test.timeout=" + (timeout + time.Minute).String(),
				fmt.Sprintf("-rapid.checks=%d", per), fmt.Sprintf("-rapid.seed=%d", s),
				"-rapid.nofailfile", "-rapid.shrinktime=45s"}
			t0 := time.Now()
			code, out, to := runProc(bin, args, baseEnv(
				"VERIF_OUT="+filepath.Join(sdir, "out.json"),
				"VERIF_FAIL="+filepath.Join(sdir, "fail.json"),
				"VERIF_JOURNAL="+filepath.Join(sdir, "journal.json"),
				"VERIF_SHARD="+strconv.Itoa(i), fmt.Sprintf("VERIF_SEED=%d", seed), exclEnv,
			), sdir, timeout)
			results[i] = result{shard: i, exit: code, out: out, timedOut: to, wall: time.Since(t0)}
		}(i)
	}
	wg.Wait()

	type stallRec struct {
		shard int
		path  string
	}
	var stalls []stallRec
	agg := shardOut{Labels: map[string]int{}, Extra: map[string]int{}}
	nt := map[string]struct{}{}
	inconclusive := ""
	for i, r := range results {
		sdir := filepath.Join(scratch, fmt.Sprintf("s%02d", i))
		if b, err := os.ReadFile(filepath.Join(sdir, "out.json")); err == nil {
			var so shardOut
			if json.Unmarshal(b, &so) == nil {
				agg.Evaluations += so.Evaluations
				agg.Excluded += so.Excluded
				for _, h := range so.Nontrivial {
					nt[h] = struct{}{}
				}
				for k, v := range so.Labels {
					agg.Labels[k] += v
				}
				for k, v := range so.Extra {
					agg.Extra[k] += v
				}
				if len(agg.Samples) < 5 && len(so.Samples) > 0 {
					agg.Samples = append(agg.Samples, so.Samples[len(so.Samples)-1])
				}
				if so.Rule != "" {
					agg.Rule = so.Rule
				}
				agg.Notes = append(agg.Notes, so.Notes...)
				agg.Known = append(agg.Known, so.Known...)
			}
		}
		failFile := filepath.Join(sdir, "fail.json")
		switch {
		case r.timedOut:
			inconclusive = fmt.Sprintf("shard %d exceeded its time limit (%s)", i, timeout)
		case r.exit == 0:
		case r.exit == 3:
			stalls = append(stalls, stallRec{i, saveFailure(*prop, failFile+".stall")})
		case r.exit == 1:
			if _, err := os.Stat(failFile); err == nil {
				p := saveFailure(*prop, failFile)
				printViolation(p, failMessage(failFile))
			} else if bytes.Contains(r.out, []byte("WARNING: DATA RACE")) || bytes.Contains(r.out, []byte("fatal error:")) || bytes.Contains(r.out, []byte("panic:")) {
				p := saveCrash(*prop, filepath.Join(sdir, "journal.json"), r.out)
				printViolation(p, crashSummary(r.out))
			} else if _, err := os.Stat(failFile + ".stall"); err == nil {
				stalls = append(stalls, stallRec{i, saveFailure(*prop, failFile+".stall")})
			} else {
				fmt.Printf("%s\n", tail(r.out, 40))
				inconclusive = fmt.Sprintf("shard %d failed without a failing program", i)
			}
		default:
			// exit 2 (go runtime fatal / panic in a background goroutine), 66 (race)
			if bytes.Contains(r.out, []byte("WARNING: DATA RACE")) || bytes.Contains(r.out, []byte("fatal error:")) || bytes.Contains(r.out, []byte("panic:")) || bytes.Contains(r.out, []byte("unexpected fault address")) {
				p := saveCrash(*prop, filepath.Join(sdir, "journal.json"), r.out)
				printViolation(p, crashSummary(r.out))
			} else {
				fmt.Printf("%s\n", tail(r.out, 40))
				inconclusive = fmt.Sprintf("shard %d exited with code %d", i, r.exit)
			}
		}
	}
	// A wait that expired inside a shard is only a stall of the library if it
	// is one without sixteen sibling processes competing for the machine: the
	// saved program is run again, alone, several times.  It is reported (as a
	// violation where "calls return" is the property, as inconclusive
	// elsewhere) when any of these runs stalls again; a run that fails its
	// oracle is a violation like any other; otherwise the expired wait was
	// load, the shard's remaining cases are missing from the count, and the
	// evidence says so.
	for _, st := range stalls {
		tries := 2
		if pc.StallIsViolation {
			tries = 5
		}
		again, failed := 0, ""
		for k := 0; k < tries && again == 0 && failed == ""; k++ {
			ff := filepath.Join(scratch, fmt.Sprintf("stallreplay-%d-%d.json", st.shard, k))
			code, _, to := runProc(bin, []string{"-test.run", "^TestReplay$", "-test.count=1", "-test.timeout=10m"},
				baseEnv("VERIF_REPLAY="+st.path, "VERIF_FAIL="+ff, exclEnv), hdir, 12*time.Minute)
			switch {
			case to || code == 3:
				again++
			case code != 0:
				if _, err := os.Stat(ff); err == nil {
					failed = saveFailure(*prop, ff)
				} else {
					again++
				}
			}
		}
		switch {
		case failed != "":
			printViolation(failed, failMessage(failed))
		case again > 0 && pc.StallIsViolation:
			printViolation(st.path, "stall: a call did not return / no progress (also when the program runs alone)")
		case again > 0:
			inconclusive = fmt.Sprintf("shard %d: controller wait expired (stall), also when the program runs alone; details in %s", st.shard, st.path)
		default:
			n := fmt.Sprintf("shard %d: a controller wait expired while 16 shards were running; the saved program (%s) then ran %d times alone without any stall or failure - counted as machine load, the rest of that shard's cases were not run", st.shard, st.path, tries)
			fmt.Println("note: " + n)
			agg.Notes = append(agg.Notes, n)
		}
	}
	for _, l := range uniq(agg.Known) {
		fmt.Println(l)
		knownLines = append(knownLines, l)
	}

	// 5. optional native fuzz campaign (thorough only)
	fuzzExecs := 0
	if *tier == "thorough" && pc.Fuzz != "" && exitCode == 0 {
		corpus := filepath.Join(scratch, "fuzzcorpus")
		os.MkdirAll(corpus, 0755)
		args := []string{"test", "./mv", "-run", "^$", "-fuzz", "^" + pc.Fuzz + "$", "-fuzztime", pc.FuzzTime.String(),
			"-test.fuzzcachedir", corpus}
		code, out, to := runProc("go", args, baseEnv("VERIF_FAIL="+filepath.Join(scratch, "fuzzfail.json"), exclEnv), hdir, pc.FuzzTime+5*time.Minute)
		fuzzExecs = parseFuzzExecs(out)
		if to {
			inconclusive = "native fuzz campaign exceeded its time limit"
		} else if code != 0 {
			ff := filepath.Join(scratch, "fuzzfail.json")
			if _, err := os.Stat(ff); err == nil {
				p := saveFailure(*prop, ff)
				printViolation(p, failMessage(ff))
			} else {
				fmt.Printf("%s\n", tail(out, 30))
				inconclusive = "native fuzz campaign failed without a failing program"
			}
			// remove crashers the fuzzer may have written into the source tree
			os.RemoveAll(filepath.Join(hdir, "mv", "testdata", "fuzz"))
		}
	}

	wall := time.Since(start).Seconds()
	if !*noEvidence && agg.Evaluations > 0 {
		writeEvidence(*prop, *tier, seed, pc, &agg, len(nt), violations, wall, shards, replayed, excludes, knownLines, fuzzExecs)
	}
	os.RemoveAll(scratch)
	if exitCode == 1 {
		os.Exit(1)
	}
	if inconclusive != "" {
		fatal2("%s", inconclusive)
	}
	if agg.Evaluations == 0 {
		fatal2("no case was evaluated")
	}
	fmt.Printf("OK property=%s tier=%s seed=%d evaluations=%d distinct_nontrivial=%d replays=%d wall=%.1fs\n",
		*prop, *tier, seed, agg.Evaluations, len(nt), replayed, wall)
}

func uniq(in []string) []string {
	seen := map[string]bool{}
	var out []string
	for _, s := range in {
		if !seen[s] {
			seen[s] = true
			out = append(out, s)
		}
	}
	return out
}

func tail(b []byte, n int) string {
	lines := strings.Split(string(b), "\n")
	var keep []string
	for _, l := range lines {
		if strings.Contains(l, "[rapid] draw") {
			continue
		}
		keep = append(keep, l)
	}
	if len(keep) > n {
		keep = keep[len(keep)-n:]
	}
	return strings.Join(keep, "\n")
}

func crashSummary(out []byte) string {
	for _, l := range strings.Split(string(out), "\n") {
		if strings.Contains(l, "WARNING: DATA RACE") || strings.HasPrefix(l, "fatal error:") || strings.HasPrefix(l, "panic:") || strings.Contains(l, "unexpected fault address") {
			return "process died: " + strings.TrimSpace(l)
		}
	}
	return "process died"
}

// saveCrash stores the journalled program together with the process output.
func saveCrash(prop, journal string, out []byte) string {
	dir := filepath.Join(verifRoot, "failures", prop)
	os.MkdirAll(dir, 0755)
	var rec map[string]interface{}
	if b, err := os.ReadFile(journal); err == nil {
		json.Unmarshal(b, &rec)
	}
	if rec == nil {
		rec = map[string]interface{}{"property": prop}
	}
	o := string(out)
	if i := strings.Index(o, "WARNING: DATA RACE"); i >= 0 {
		o = o[i:]
	} else if i := strings.Index(o, "fatal error:"); i >= 0 {
		o = o[i:]
	} else if i := strings.Index(o, "panic:"); i >= 0 {
		o = o[i:]
	}
	if len(o) > 20000 {
		o = o[:20000]
	}
	rec["message"] = "process died while running this program"
	rec["output"] = o
	b, _ := json.MarshalIndent(rec, "", " ")
	sum := sha256.Sum256(b)
	dst := filepath.Join(dir, "crash-"+hex.EncodeToString(sum[:6])+".json")
	os.WriteFile(dst, b, 0644)
	return dst
}

func parseFuzzExecs(out []byte) int {
	n := 0
	for _, l := range strings.Split(string(out), "\n") {
		if i := strings.Index(l, "execs: "); i >= 0 {
			rest := l[i+7:]
			if j := strings.IndexAny(rest, " ("); j > 0 {
				if v, err := strconv.Atoi(rest[:j]); err == nil && v > n {
					n = v
				}
			}
		}
	}
	return n
}

func writeEvidence(prop, tier string, seed int64, pc *propCfg, agg *shardOut, distinct, violations int, wall float64, shards, replayed int, excludes, known []string, fuzzExecs int) {
	samples := make([]interface{}, 0, len(agg.Samples))
	for _, s := range agg.Samples {
		samples = append(samples, s)
	}
	cov := map[string]interface{}{
		"evaluations":         agg.Evaluations,
		"distinct_nontrivial": distinct,
		"rule":                agg.Rule,
		"samples":             samples,
		"labels":              agg.Labels,
		"shards":              shards,
		"replays_run":         replayed,
		"excluded_draws":      agg.Excluded,
		"exclusions_active":   excludes,
		"known_findings":      known,
	}
	for k, v := range agg.Extra {
		cov[k] = v
	}
	if fuzzExecs > 0 {
		cov["native_fuzz_execs"] = fuzzExecs
	}
	if len(agg.Notes) > 0 {
		cov["notes"] = uniq(agg.Notes)
	}
	assumptions := append([]string{
		"held on everything explored; nothing is proved",
		"the reference model (ordered map tree with child collections and merge fold) states the documented semantics",
	}, pc.Assumptions...)
	ev := map[string]interface{}{
		"property_id": prop,
		"tier":        tier,
		"seed":        seed,
		"level":       pc.Level,
		"coverage":    cov,
		"assumptions": assumptions,
		"wall_s":      wall,
		"violations":  violations,
	}
	b, _ := json.MarshalIndent(ev, "", " ")
	dir := filepath.Join(verifRoot, "evidence")
	os.MkdirAll(dir, 0755)
	os.WriteFile(filepath.Join(dir, prop+".json"), b, 0644)
}
