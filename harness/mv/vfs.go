package mv

import (
	"bytes"
	"fmt"
	"errors"
	"io"
	"os"
	"path/filepath"
	"sort"
	"sync"
	"sync/atomic"
	"time"

	"github.com/couchbase/moss"
)

// Gate parks goroutines that enter it until released by the harness.
type Gate struct {
	mu      sync.Mutex
	open    bool
	waiting []chan struct{}
	arrived chan string
	// onParked, when set, is called by a goroutine that parks (after it is
	// registered as waiting); if the gate is open it is called as well.
	onParked func(tag string)
}

func NewGate() *Gate { return &Gate{arrived: make(chan string, 64)} }

// Enter blocks the calling goroutine unless the gate is open.
var dbgGate = os.Getenv("VERIF_DEBUGSHAPE") != ""

func (g *Gate) Enter(tag string) {
	g.mu.Lock()
	if dbgGate {
		fmt.Fprintf(os.Stderr, "GATE %p enter %s open=%v\n", g, tag, g.open)
	}
	if g.open {
		g.mu.Unlock()
		if g.onParked != nil {
			g.onParked(tag)
		}
		return
	}
	ch := make(chan struct{})
	g.waiting = append(g.waiting, ch)
	g.mu.Unlock()
	// announce only after being registered, so that a Release that follows
	// the announcement cannot miss this goroutine
	if g.onParked != nil {
		g.onParked(tag)
	}
	select {
	case g.arrived <- tag:
	default:
	}
	<-ch
}

// Release lets every currently parked goroutine continue.
func (g *Gate) Release() int {
	g.mu.Lock()
	w := g.waiting
	g.waiting = nil
	if dbgGate {
		fmt.Fprintf(os.Stderr, "GATE %p release n=%d\n", g, len(w))
	}
	g.mu.Unlock()
	for _, ch := range w {
		close(ch)
	}
	return len(w)
}

// Open makes the gate pass-through and releases whoever is parked.
func (g *Gate) Open() {
	g.mu.Lock()
	g.open = true
	g.mu.Unlock()
	g.Release()
}

func (g *Gate) Shut() {
	g.mu.Lock()
	g.open = false
	g.mu.Unlock()
}

func (g *Gate) Parked() int {
	g.mu.Lock()
	defer g.mu.Unlock()
	return len(g.waiting)
}

func (g *Gate) drainArrived() {
	for {
		select {
		case <-g.arrived:
		default:
			return
		}
	}
}

// ---------------------------------------------------------------

// TraceOp is one recorded file-layer operation.
type TraceOp struct {
	Idx     int
	Kind    string // open write sync stat trunc close read unlink mark
	Name    string // base name
	Off     int64
	Data    []byte // copy of written bytes (write)
	Flags   int    // open flags
	Harness bool   // issued from a harness call (OpenStore, revert...)
	Err     bool   // returned an (injected) error
	Done    int    // index in trace of the matching completion marker (sync only)
	Note    string // mark payload
}

// Fault describes an injected failure.
type Fault struct {
	Short       int   // >=0: short write of this many bytes (with io.ErrShortWrite)
	SilentShort bool  // the short write reports no error at all
	Err         error // error to return
}

var ErrInjected = errors.New("verif-injected-io-error")

// FS is the moss.OpenFile provider of one case.
type FS struct {
	Dir string

	harness int32

	mu         sync.Mutex
	armed      string
	footerSeen bool
	gate       *Gate

	record  bool
	recData bool
	trace   []TraceOp
	known   map[string]bool

	opIndex  int                                                  // counts faultable ops (non-harness)
	FaultFn  func(idx int, kind string, name string, n int) *Fault // under mu
	hits     int
	hitKinds map[string]int

	DelayAfterFault time.Duration // see vfile.WriteAt
	ClassifySites   bool          // record the class of every faultable operation (baseline runs)
	SiteClasses     []string
	lastFault       time.Time
	delays          int
	Perturb    func() // optional schedule perturbation before persister-side operations

	Creates    int
	MaxCreates int

	// counters for C18
	Mutating int
	MutKinds map[string]int
}

func NewFS(dir string) *FS {
	return &FS{Dir: dir, gate: NewGate(), known: map[string]bool{}, MaxCreates: 64,
		hitKinds: map[string]int{}, MutKinds: map[string]int{}}
}

func (fs *FS) HarnessBegin() { atomic.AddInt32(&fs.harness, 1) }
func (fs *FS) HarnessEnd()   { atomic.AddInt32(&fs.harness, -1) }
func (fs *FS) inHarness() bool {
	return atomic.LoadInt32(&fs.harness) > 0
}

// Record switches trace recording on (withData: keep copies of writes).
func (fs *FS) Record(withData bool) {
	fs.mu.Lock()
	fs.record = true
	fs.recData = withData
	fs.mu.Unlock()
	fs.observeDir()
}

func (fs *FS) Trace() []TraceOp {
	fs.mu.Lock()
	defer fs.mu.Unlock()
	return append([]TraceOp(nil), fs.trace...)
}

// Mark appends an annotation to the trace.
func (fs *FS) Mark(note string) {
	fs.mu.Lock()
	if fs.record {
		fs.trace = append(fs.trace, TraceOp{Idx: len(fs.trace), Kind: "mark", Note: note})
	}
	fs.mu.Unlock()
}

func (fs *FS) Hits() (int, map[string]int) {
	fs.mu.Lock()
	defer fs.mu.Unlock()
	m := map[string]int{}
	for k, v := range fs.hitKinds {
		m[k] = v
	}
	return fs.hits, m
}

func (fs *FS) OpIndex() int {
	fs.mu.Lock()
	defer fs.mu.Unlock()
	return fs.opIndex
}

// Arm makes the next matching persister-side file operation park.
func (fs *FS) Arm(g string) {
	fs.mu.Lock()
	fs.armed = g
	fs.footerSeen = false
	fs.mu.Unlock()
}

func (fs *FS) Disarm() {
	fs.mu.Lock()
	fs.armed = ""
	fs.mu.Unlock()
}

var footerMagic = append(append([]byte{}, moss.StoreMagicBeg...), moss.StoreMagicBeg...)

func isFooterWrite(data []byte) bool {
	return len(data) >= len(footerMagic) && bytes.Equal(data[:len(footerMagic)], footerMagic)
}

// observeDir lists the directory and records unlinks of known files.
func (fs *FS) observeDir() {
	fs.mu.Lock()
	rec := fs.record
	fs.mu.Unlock()
	if !rec {
		return
	}
	ents, err := os.ReadDir(fs.Dir)
	if err != nil {
		return
	}
	present := map[string]bool{}
	for _, e := range ents {
		present[e.Name()] = true
	}
	fs.mu.Lock()
	var gone []string
	for n := range fs.known {
		if !present[n] {
			gone = append(gone, n)
		}
	}
	sort.Strings(gone)
	for _, n := range gone {
		delete(fs.known, n)
		fs.trace = append(fs.trace, TraceOp{Idx: len(fs.trace), Kind: "unlink", Name: n})
	}
	for n := range present {
		fs.known[n] = true
	}
	fs.mu.Unlock()
}

// pre is called before an operation: gating + fault decision + trace.
// It returns the trace index (or -1) and an injected fault (or nil).
func (fs *FS) pre(kind, name string, off int64, data []byte, flags int) (int, *Fault) {
	h := fs.inHarness()
	if fs.Perturb != nil && !h && kind != "read" {
		fs.Perturb()
	}
	if !h && (kind == "stat" || kind == "sync" || kind == "write") {
		fs.mu.Lock()
		match := false
		switch fs.armed {
		case "first":
			match = kind != "write" || off > 0
		case "sync1":
			match = kind == "sync" && !fs.footerSeen
		case "footer":
			match = kind == "write" && isFooterWrite(data)
		case "sync2":
			match = kind == "sync" && fs.footerSeen
		}
		if kind == "write" && isFooterWrite(data) {
			fs.footerSeen = true
		}
		if match {
			fs.armed = ""
		}
		fs.mu.Unlock()
		if match {
			fs.gate.Enter(kind)
		}
	}
	fs.observeDir()
	fs.mu.Lock()
	defer fs.mu.Unlock()
	var f *Fault
	if !h && kind != "close" && kind != "read" {
		idx := fs.opIndex
		fs.opIndex++
		if fs.ClassifySites {
			cls := kind
			if kind == "write" {
				switch {
				case off == 0:
					cls = "header"
				case isFooterWrite(data):
					cls = "footer"
				default:
					cls = "data"
				}
			}
			fs.SiteClasses = append(fs.SiteClasses, cls)
		}
		if fs.FaultFn != nil {
			f = fs.FaultFn(idx, kind, name, len(data))
			if f != nil {
				fs.hits++
				fs.hitKinds[kind]++
				fs.lastFault = time.Now()
			}
		}
	}
	if kind == "write" || kind == "sync" || kind == "trunc" || (kind == "open" && flags&(os.O_CREATE|os.O_TRUNC|os.O_WRONLY|os.O_RDWR|os.O_APPEND) != 0) {
		fs.Mutating++
		fs.MutKinds[kind]++
	}
	ti := -1
	if fs.record {
		op := TraceOp{Idx: len(fs.trace), Kind: kind, Name: name, Off: off, Flags: flags, Harness: h, Err: f != nil && f.Short < 0}
		if kind == "write" && fs.recData {
			if f != nil && f.Short >= 0 && f.Short <= len(data) {
				op.Data = append([]byte{}, data[:f.Short]...)
			} else if f == nil {
				op.Data = append([]byte{}, data...)
			}
		}
		fs.trace = append(fs.trace, op)
		ti = op.Idx
	}
	return ti, f
}

func (fs *FS) post(ti int, kind string) {
	fs.observeDir()
	if ti >= 0 && kind == "sync" {
		fs.mu.Lock()
		fs.trace = append(fs.trace, TraceOp{Idx: len(fs.trace), Kind: "syncdone", Name: fs.trace[ti].Name, Done: ti})
		fs.mu.Unlock()
	}
}

// OpenFile implements moss.OpenFile.
func (fs *FS) OpenFile(name string, flag int, perm os.FileMode) (moss.File, error) {
	base := filepath.Base(name)
	if flag&os.O_CREATE != 0 {
		fs.mu.Lock()
		fs.Creates++
		over := fs.Creates > fs.MaxCreates
		fs.mu.Unlock()
		if over {
			// The F11 hot loop otherwise fills the scratch directory.
			time.Sleep(2 * time.Millisecond)
			return nil, errors.New("verif: file creation cap reached")
		}
	}
	ti, f := fs.pre("open", base, 0, nil, flag)
	if f != nil {
		return nil, f.Err
	}
	osf, err := os.OpenFile(name, flag, perm)
	if err != nil {
		return nil, err
	}
	if flag&os.O_CREATE != 0 {
		fs.mu.Lock()
		fs.known[base] = true
		fs.mu.Unlock()
	}
	fs.post(ti, "open")
	return &vfile{fs: fs, f: osf, name: base}, nil
}

type vfile struct {
	fs   *FS
	f    *os.File
	name string
}

func (v *vfile) OsFile() *os.File { return v.f }

func (v *vfile) ReadAt(p []byte, off int64) (int, error) {
	v.fs.pre("read", v.name, off, nil, 0)
	return v.f.ReadAt(p, off)
}

func (v *vfile) WriteAt(p []byte, off int64) (int, error) {
	ti, f := v.fs.pre("write", v.name, off, p, 0)
	if f == nil && v.fs.DelayAfterFault > 0 {
		// A write that runs concurrently with one that has just failed is made
		// slow: if the library stops waiting for it, it lands late - on top of
		// whatever a retry has written by then.
		v.fs.mu.Lock()
		recent := !v.fs.lastFault.IsZero() && time.Since(v.fs.lastFault) < v.fs.DelayAfterFault
		v.fs.mu.Unlock()
		if recent && !v.fs.inHarness() {
			v.fs.mu.Lock()
			v.fs.delays++
			ok := v.fs.delays <= 6
			v.fs.mu.Unlock()
			if ok {
				time.Sleep(v.fs.DelayAfterFault)
			}
		}
	}
	if f != nil {
		if f.Short >= 0 {
			n := f.Short
			if n > len(p) {
				n = len(p)
			}
			if n > 0 {
				v.f.WriteAt(p[:n], off)
			}
			v.fs.post(ti, "write")
			if f.SilentShort {
				return n, nil // fewer bytes than asked and no error: the caller has to compare
			}
			return n, io.ErrShortWrite
		}
		return 0, f.Err
	}
	n, err := v.f.WriteAt(p, off)
	v.fs.post(ti, "write")
	return n, err
}

func (v *vfile) Close() error {
	ti, _ := v.fs.pre("close", v.name, 0, nil, 0)
	err := v.f.Close()
	v.fs.post(ti, "close")
	return err
}

func (v *vfile) Stat() (os.FileInfo, error) {
	_, f := v.fs.pre("stat", v.name, 0, nil, 0)
	if f != nil {
		return nil, f.Err
	}
	return v.f.Stat()
}

func (v *vfile) Sync() error {
	ti, f := v.fs.pre("sync", v.name, 0, nil, 0)
	if f != nil {
		return f.Err
	}
	// tmpfs: fsync is a no-op; the crash model works from the trace.
	v.fs.post(ti, "sync")
	return nil
}

func (v *vfile) Truncate(size int64) error {
	ti, f := v.fs.pre("trunc", v.name, size, nil, 0)
	if f != nil {
		return f.Err
	}
	err := v.f.Truncate(size)
	v.fs.post(ti, "trunc")
	return err
}
