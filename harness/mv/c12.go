package mv

import (
	"bytes"
	"fmt"
	"os"
	"path/filepath"

	"github.com/couchbase/moss"
)

// reopenCollOnStore opens a new collection on the already open store
// (after the previous collection was closed), in controlled mode.
func (e *Env) reopenCollOnStore() {
	cfg := e.Cfg
	e.mGate = NewGate()
	e.pErrGate = NewGate()
	e.llGate = NewGate()
	sig := make(chan pSignal, 4096)
	e.pSig = sig
	e.pErrGate.onParked = func(string) {
		e.lastErrMu.Lock()
		err := e.lastErr
		e.lastErrMu.Unlock()
		select {
		case sig <- pSignal{ok: false, err: err}:
		default:
		}
	}
	e.pState = pIdle
	e.top, e.mid, e.base, e.clean = nil, nil, nil, nil
	e.closed = false
	e.controlled = true
	e.FS.gate.Shut()
	so, po := cfg.storeOptions(e)
	so.CollectionOptions.OnEvent = e.onEvent
	so.CollectionOptions.OnError = e.onError
	so.OpenFile = e.FS.OpenFile
	e.FS.HarnessBegin()
	c, err := e.Store.OpenCollection(so, po)
	e.FS.HarnessEnd()
	if err != nil {
		e.Failf("Store.OpenCollection: %v", err)
	}
	e.Coll = c
	e.MergerStep("")
	e.settlePersister()
}

type c12State struct {
	*Env
	exposed    []*Node // store content after each footer-writing round since the last compaction / revert, oldest first
	older      []*Node // history before the last revert (may or may not still be reachable)
	persists   uint64
	compTot    uint64
	compPart   uint64
	walks      int
	deepWalks  int
	reverts    int
	revertCont bool
	hadDel     bool
}

func (c *c12State) readCounters() (uint64, uint64, uint64) {
	st, err := c.Store.Stats()
	if err != nil {
		c.Failf("Store.Stats: %v", err)
	}
	return storeStatU(st, "total_persists"), storeStatU(st, "total_compactions"), storeStatU(st, "total_compactions_partial")
}

// onRound updates the exposed history after a completed round.
func (c *c12State) onRound() {
	p, ct, cp := c.readCounters()
	if ct > c.compTot || cp > c.compPart {
		c.exposed = []*Node{c.ExpectedStore().Clone()}
		c.older = nil
		c.Label("history-reset-by-compaction")
	} else if p > c.persists {
		c.exposed = append(c.exposed, c.ExpectedStore().Clone())
	}
	c.persists, c.compTot, c.compPart = p, ct, cp
}

// walk walks back from the current store snapshot and compares every
// element with the exposed history; returns the snapshot at the requested
// depth (or nil) - the caller closes it.
func (c *c12State) walk(when string, depth int, keep bool) moss.Snapshot {
	c.FS.HarnessBegin()
	defer c.FS.HarnessEnd()
	cur, err := c.Store.Snapshot()
	if err != nil || cur == nil {
		c.Failf("%s: Store.Snapshot: %v", when, err)
	}
	n := len(c.exposed)
	// element 0 of the walk is the current content
	for i := 0; ; i++ {
		var want *Node
		if i < n {
			want = c.exposed[n-1-i]
		} else if j := i - n; j < len(c.older) {
			want = c.older[len(c.older)-1-j] // reachable or not after a revert: both allowed
		}
		if want == nil {
			// beyond the known history there must be nothing... except for the
			// state before the first footer (an empty store has no footer)
			if d := CompareSnapshot(cur, NewNode(), ReadOpts{SkipGets: true}, "prev"); d != "" {
				c.Failf("%s: walking back %d steps yields a snapshot beyond the recorded history (%d rounds): %s", when, i, n, d)
			}
		} else if d := CompareSnapshot(cur, want, c.storeReadOpts(), fmt.Sprintf("previous[%d]", i)); d != "" {
			if i >= n {
				c.Failf("%s: walking back %d steps (past a revert) yields content that matches no recorded round: %s", when, i, d)
			}
			c.Failf("%s: walking back %d steps does not yield the content the store exposed after round %d of %d: %s", when, i, n-i, n, d)
		}
		if i == depth {
			if keep {
				return cur
			}
			cur.Close()
			return nil
		}
		prev, err := c.Store.SnapshotPrevious(cur)
		if err != nil {
			cur.Close()
			c.Failf("%s: SnapshotPrevious at depth %d: %v", when, i, err)
		}
		cur.Close()
		if prev == nil {
			if i+1 < n {
				c.Failf("%s: SnapshotPrevious returns nil after %d steps, but %d rounds wrote footers since the last compaction", when, i+1, n)
			}
			if i >= 1 {
				c.deepWalks++
			}
			return nil
		}
		cur = prev
		if i+1 >= 2 {
			c.deepWalks++
		}
	}
}

// RunC12 executes one C12 program.
func RunC12(t TB, p *Program) *c12State {
	journal(p)
	e := NewEnv(t, p)
	c := &c12State{Env: e}
	defer e.Cleanup()
	e.OnRound = c.onRound
	if !p.Cfg.NoSync {
		// record the file operations: "durable" is decided from the trace
		e.Dir = newCaseDir()
		e.FS = NewFS(e.Dir)
		e.FS.Record(true)
	}
	e.Open()
	c.persists, c.compTot, c.compPart = c.readCounters()
	for i, op := range p.Ops {
		when := fmt.Sprintf("op %d %s", i, op)
		switch op.Kind {
		case "batch":
			e.Exec(op.B)
			for _, kv := range op.B.Ops {
				if kv.Op == OpDel {
					c.hadDel = true
				}
			}
			if c.reverts > 0 {
				c.revertCont = true
			}
		case "mstep":
			e.MergerStep(op.MKind)
			if e.pState == pErrParked {
				e.Failf("%s: persistence round failed: %v", when, e.OnErrors())
			}
		case "walk":
			c.walks++
			c.walk(when, op.N, false)
		case "reopen":
			if !e.Drain() {
				e.Failf("%s: persistence does not catch up: %v", when, e.OnErrors())
			}
			e.CloseAll()
			waitDirSettled(e.Dir, 500e6)
			e.openWith(e.Cfg, true)
			c.persists, c.compTot, c.compPart = 0, 0, 0
			c.onRound() // the parking cycle may have compacted (idle compaction)
			c.persists, c.compTot, c.compPart = c.readCounters()
			e.CheckColl(when)
			e.CheckStore(when)
			c.Label("reopen")
		case "revert":
			// documented precondition: the collection is closed
			if !e.Drain() {
				e.Failf("%s: persistence does not catch up: %v", when, e.OnErrors())
			}
			e.CloseColl()
			depth := op.N
			if depth >= len(c.exposed) {
				depth = len(c.exposed) - 1
			}
			if depth < 0 {
				e.reopenCollOnStore()
				continue
			}
			target := c.walk(when, depth, true)
			if target == nil {
				e.Failf("%s: no snapshot at depth %d although %d rounds are recorded", when, depth, len(c.exposed))
			}
			want := c.exposed[len(c.exposed)-1-depth]
			e.FS.HarnessBegin()
			err := e.Store.SnapshotRevert(target)
			e.FS.HarnessEnd()
			target.Close()
			if err != nil {
				e.Failf("%s: SnapshotRevert to the snapshot %d steps back (obtained since the last compaction) fails: %v", when, depth, err)
			}
			c.reverts++
			c.Label("revert")
			// the reverted content is now the store's current content ...
			e.Model = want.Clone()
			e.States = []*Node{e.Model.Clone()}
			e.Persisted = 0
			e.CheckStore(when + " (after revert)")
			// ... and durable: a copy of the directory reopens to it
			h := &Hist{Env: e}
			h.reopenCopy(when, want, "the reverted content is not what a reopen yields")
			if !p.Cfg.NoSync {
				c.checkDurable(when, want)
			}
			c.older = append(c.older, c.exposed[:len(c.exposed)-1-depth]...)
			c.older = append(c.older, c.exposed[len(c.exposed)-1-depth:]...)
			c.exposed = []*Node{want.Clone()}
			// history before the revert may stay reachable or not; what must not
			// happen is wrong content.  Keep only the elements that precede the
			// target as possibly-reachable.
			c.older = nil
			p0, ct, cp := c.readCounters()
			c.persists, c.compTot, c.compPart = p0, ct, cp
			e.reopenCollOnStore()
			e.CheckColl(when + " (collection reopened on the reverted store)")
		}
	}
	// final: everything persisted is walkable and reopen yields the model
	if !e.Drain() {
		e.Failf("final: persistence does not catch up: %v", e.OnErrors())
	}
	c.walk("final walk", 1<<30, false)
	e.CloseAll()
	h := &Hist{Env: e}
	h.reopenCopy("final", e.Model, "content after close and reopen differs")
	return c
}

// checkDurable decides "durable" for a SnapshotRevert that has returned: the
// directory as a power loss right now would leave it - every file cut back
// to what its last completed Sync covered (un-synced writes lost, with the
// natural and with the already extended length) - must reopen to want.
func (c *c12State) checkDurable(when string, want *Node) {
	e := c.Env
	files := map[string]*fileSim{}
	for _, op := range e.FS.Trace() {
		switch op.Kind {
		case "open":
			if op.Flags&os.O_CREATE != 0 && !op.Err {
				if _, ok := files[op.Name]; !ok {
					files[op.Name] = &fileSim{exists: true}
				}
			}
		case "write":
			if f := files[op.Name]; f != nil && len(op.Data) > 0 && !op.Err {
				f.current = applyAt(f.current, op.Off, op.Data)
			}
		case "syncdone":
			if f := files[op.Name]; f != nil {
				f.durable = append([]byte{}, f.current...)
			}
		case "unlink":
			if f := files[op.Name]; f != nil {
				f.exists = false
			}
		}
	}
	unsynced := false
	for variant := 0; variant < 2; variant++ {
		im := image{}
		for n, f := range files {
			if !f.exists {
				continue
			}
			b := append([]byte{}, f.durable...)
			if len(f.current) != len(f.durable) || !bytes.Equal(f.current, f.durable) {
				unsynced = true
			}
			if variant == 1 && len(f.current) > len(b) {
				b = append(b, make([]byte, len(f.current)-len(b))...)
			}
			im[n] = b
		}
		if variant == 1 && !unsynced {
			break
		}
		dir := e.Dir + ".durable"
		os.RemoveAll(dir)
		os.MkdirAll(dir, 0700)
		for n, b := range im {
			if err := os.WriteFile(filepath.Join(dir, n), b, 0600); err != nil {
				os.RemoveAll(dir)
				e.Failf("checkDurable: %v", err)
			}
		}
		so := moss.StoreOptions{}
		if e.Cfg.MergeOp {
			so.CollectionOptions.MergeOperator = e.mergeOp
		}
		s, coll, err := moss.OpenStoreCollection(dir, so, moss.StorePersistOptions{})
		if err != nil {
			os.RemoveAll(dir)
			e.Failf("%s: SnapshotRevert returned, but the directory as its completed Syncs cover it (un-synced writes dropped) does not reopen: %v [%s]", when, err, imageListing(im))
		}
		d := ""
		snap, err := coll.Snapshot()
		if err != nil {
			d = "Snapshot: " + err.Error()
		} else {
			d = CompareSnapshot(snap, want, ReadOpts{}, "durable-image")
			snap.Close()
		}
		coll.Close()
		s.Close()
		os.RemoveAll(dir)
		if d != "" {
			e.Failf("%s: SnapshotRevert returned, but the reverted content is not durable: the directory as its completed Syncs cover it (un-synced writes dropped%s) reopens to different content: %s", when, map[int]string{0: "", 1: ", file already at its new length"}[variant], d)
		}
		c.Label("revert-durable-image")
	}
}
