package mv

import (
	"encoding/json"
	"os"
)

func LoadFailRecord(path string) (*FailRecord, error) {
	b, err := os.ReadFile(path)
	if err != nil {
		return nil, err
	}
	rec := &FailRecord{}
	if err := json.Unmarshal(b, rec); err != nil {
		return nil, err
	}
	if rec.Program == nil {
		// maybe a bare program
		p := &Program{}
		if err := json.Unmarshal(b, p); err != nil {
			return nil, err
		}
		rec.Program = p
	}
	return rec, nil
}

// oraclesFor maps a property id to the oracles of its history check.
var oraclesFor = map[string]Oracles{
	"C01": {CollEveryStep: true},
	"C02": {},
	"C10": {ReadPaths: true},
	"C08": {CollEveryStep: true, StoreEveryStep: true, FinalReopen: true},
	"C11": {CollEveryStep: true, StoreEveryStep: true, FinalReopen: true, PersistErrFatal: true, ChildLabels: true},
	"C20": {Gauges: true, PersistErrFatal: true},
	"C04": {StoreEveryStep: true, FinalReopen: true, PersistErrFatal: true},
	"C07": {CollEveryStep: true, StoreEveryStep: true, Compaction: true, Handles: true},
	"C15": {Handles: true},
	"C09": {},
	"C19": {CollEveryStep: true, StoreEveryStep: true, FinalReopen: true},
}

type runner func(t TB, p *Program)

var runners = map[string]runner{
	"C14": func(t TB, p *Program) { RunC14(t, p) },
	"C13": func(t TB, p *Program) { RunC13(t, p) },
	"C12": func(t TB, p *Program) { RunC12(t, p) },
	"C18": func(t TB, p *Program) { RunC18(t, p) },
	"C05": func(t TB, p *Program) { RunC05(t, p) },
	"C06": func(t TB, p *Program) { RunC06(t, p) },
	"C03": func(t TB, p *Program) { RunConc(t, p) },
	"C16": func(t TB, p *Program) { RunC16(t, p) },
	"C17": func(t TB, p *Program) { RunConc(t, p) },
}

func replayProgram(t TB, p *Program) {
	if r, ok := runners[p.Prop]; ok {
		r(t, p)
		return
	}
	o, ok := oraclesFor[p.Prop]
	if !ok {
		t.Fatalf("no replay runner for property %q", p.Prop)
	}
	RunHistory(t, p, o)
}
