package mv

import (
	"fmt"
	"os"
	"sort"
	"strings"
	"time"

	"github.com/couchbase/moss"
)

// Oracles selects what the history executor checks.
type Oracles struct {
	CollEveryStep   bool // collection snapshot == model after every op (C01)
	StoreEveryStep  bool // store snapshot == States[Persisted] after every op
	ReadPaths       bool // C10: all read paths agree
	Gauges          bool // C20
	Compaction      bool // C07
	PersistErrFatal bool // a failing round (no fault injected) is a violation
	FinalReopen     bool // drain + close + reopen + compare at the end
	Handles         bool // C15: fd / mapping / directory accounting at the end
	ChildLabels     bool // C11 classification
	MergeLabels     bool // C08 classification
	Faults          bool // C06: faults may be injected; extra checks after failed rounds
}

type snapHandle struct {
	snap   moss.Snapshot
	want   *Node
	kind   string // "coll" "child" "store"
	opened int    // op index
	// what happened since it was taken
	laterChange, mstep, round, compact, collClosed, storeClosed bool
	fileAtOpen                                                 string
	multi                                                      bool // >= 2 sources at snapshot time
}

type iterHandle struct {
	it   moss.Iterator
	mi   *ModelIter
	snap int
	multi bool
	hard  bool // backward seek / seek after exhaustion / shared-prefix bounds seen
}

// Hist is the running state of one history case.
type Hist struct {
	*Env
	O        Oracles
	snaps    map[int]*snapHandle
	iters    map[int]*iterHandle
	touched  map[string][]int // key (path-qualified) -> batch ids, ascending
	Nontriv  bool
	compTot  uint64
	compPart uint64
	fullComp int
	partComp int
	zeroSeen bool
	lastZero int
	retainedVals []retainedVal
	childOnly    map[int]bool
	hadChildren  bool
	copiesAfterFault int
	gaugeCopies  int
}

func storeStatU(st map[string]interface{}, k string) uint64 {
	switch v := st[k].(type) {
	case uint64:
		return v
	case int:
		return uint64(v)
	}
	return 0
}

func (h *Hist) section(id int) string {
	for _, x := range h.top {
		if x == id {
			return "top"
		}
	}
	for _, x := range h.mid {
		if x == id {
			return "mid"
		}
	}
	for _, x := range h.base {
		if x == id {
			return "base"
		}
	}
	for _, x := range h.clean {
		if x == id {
			return "clean"
		}
	}
	if id <= h.Persisted {
		return "ll"
	}
	return "?"
}

func (h *Hist) noteTouched(b *Batch, path string, id int) {
	if b == nil {
		return
	}
	for _, kv := range b.Ops {
		if len(kv.K) > 4096 {
			continue
		}
		k := path + "\x00" + string(kv.K) + "\x00" + kv.Op
		h.touched[k] = append(h.touched[k], id)
	}
	for i := range b.Children {
		c := &b.Children[i]
		if c.Del {
			k := path + "/" + c.Name + "\x00\x00delchild"
			h.touched[k] = append(h.touched[k], id)
			continue
		}
		h.noteTouched(c.B, path+"/"+c.Name, id)
	}
}

// classify computes the placement labels at a read moment.
func (h *Hist) classify() {
	secs := map[string]bool{}
	for _, s := range [][]int{h.top, h.mid, h.base, h.clean} {
		_ = s
	}
	if len(h.top) > 0 {
		secs["top"] = true
	}
	if len(h.mid) > 0 {
		secs["mid"] = true
	}
	if len(h.base) > 0 {
		secs["base"] = true
	}
	if len(h.clean) > 0 {
		secs["clean"] = true
	}
	if h.Persisted > 0 {
		secs["ll"] = true
	}
	var ss []string
	for s := range secs {
		ss = append(ss, s)
	}
	sort.Strings(ss)
	h.Label("shape:" + strings.Join(ss, "+"))
	if h.pState == pHeld {
		h.Label("read-while-persister-held")
	}
	if h.O.ChildLabels {
		h.classifyChildren()
	}
	// per key: newest op in a different section from an older op
	byKey := map[string][]struct {
		id int
		op string
	}{}
	for k, ids := range h.touched {
		i := strings.LastIndex(k, "\x00")
		base, op := k[:i], k[i+1:]
		for _, id := range ids {
			byKey[base] = append(byKey[base], struct {
				id int
				op string
			}{id, op})
		}
	}
	for _, l := range byKey {
		if len(l) < 2 {
			continue
		}
		sort.Slice(l, func(i, j int) bool { return l[i].id < l[j].id })
		newest := l[len(l)-1]
		ns := h.section(newest.id)
		for _, o := range l[:len(l)-1] {
			os := h.section(o.id)
			if os != ns && os != "?" && ns != "?" {
				h.Nontriv = true
				h.Label("cross-section:" + newest.op + "@" + ns + "-over-" + o.op + "@" + os)
				if newest.op == OpDel && os == "ll" {
					h.Label("tombstone-above-lower-level")
				}
				if newest.op == OpMerge || o.op == OpMerge {
					h.Label("merge-cross-section")
				}
				break
			}
		}
	}
}

func (h *Hist) afterStep(i int, op Op) {
	when := fmt.Sprintf("after op %d %s", i, op)
	if h.closed {
		return
	}
	if h.Cfg.SparseReads && i%5 != 4 && i != len(h.Prog.Ops)-1 {
		return
	}
	if os.Getenv("VERIF_DEBUGSHAPE") != "" {
		st := h.stats()
		fmt.Fprintf(os.Stderr, "SHAPE op%d top=%v mid=%v base=%v clean=%v persisted=%d pstate=%d | stats top=%d mid=%d base=%d clean=%d rounds=%d llnotify=%d plBeg=%d plEnd=%d\n", i, h.top, h.mid, h.base, h.clean, h.Persisted, h.pState,
			st.CurDirtyTopSegments, st.CurDirtyMidSegments, st.CurDirtyBaseSegments, st.CurCleanSegments, h.Rounds, st.TotMergerLowerLevelNotify, st.TotPersisterLowerLevelUpdateBeg, st.TotPersisterLowerLevelUpdateEnd)
	}
	if h.O.CollEveryStep {
		h.classify()
		h.CheckColl(when)
	}
	if h.O.ReadPaths {
		h.classify()
		h.checkReadPaths(when)
	}
	if h.O.StoreEveryStep && h.Cfg.Backing != "mem" {
		h.CheckStore(when)
	}
	if h.O.Gauges && h.Cfg.Backing != "mem" {
		h.checkGauges(when, i)
	}
}

// RunHistory executes a program under the controller with the selected
// oracles.  It returns whether the case was non-trivial by the C01-style
// placement rule (callers may compute their own rule from Labels).
func RunHistory(t TB, p *Program, o Oracles) *Hist {
	return RunHistoryWith(t, p, o, nil)
}

// RunHistoryWith is RunHistory with a hook that configures the Env before
// the collection is opened.
func RunHistoryWith(t TB, p *Program, o Oracles, setup func(e *Env)) *Hist {
	journal(p)
	if dbg := os.Getenv("VERIF_DEBUGLOG"); dbg != "" {
		f, _ := os.OpenFile(dbg, os.O_APPEND|os.O_CREATE|os.O_WRONLY, 0644)
		fmt.Fprintf(f, "%s %s\n", p.Hash(), p.Compact())
		f.Close()
	}
	e := NewEnv(t, p)
	if setup != nil {
		setup(e)
	}
	e.PersistErrFatal = o.PersistErrFatal
	h := &Hist{Env: e, O: o, snaps: map[int]*snapHandle{}, iters: map[int]*iterHandle{}, touched: map[string][]int{}, childOnly: map[int]bool{}}
	defer h.finish()
	e.OnRound = func() {
		for _, sh := range h.snaps {
			sh.round = true
		}
		h.noteCompactions()
	}
	e.Open()
	h.noteCompactions()
	for i, op := range p.Ops {
		if e.curStep != nil {
			e.FS.mu.Lock()
			*e.curStep = i
			e.FS.mu.Unlock()
		}
		h.step(i, op)
		h.afterStep(i, op)
	}
	if e.FS != nil {
		e.FS.mu.Lock()
	}
	e.faultsOff = true // once operations succeed again, persistence must catch up
	if e.FS != nil {
		e.FS.mu.Unlock()
	}
	h.final()
	return h
}

func (h *Hist) finish() {
	if r := recover(); r != nil {
		h.closeHandles()
		h.cleanup()
		panic(r)
	}
	h.closeHandles()
	h.cleanup()
}

func (h *Hist) closeHandles() {
	for id, ih := range h.iters {
		if ih.it != nil {
			ih.it.Close()
		}
		delete(h.iters, id)
	}
	for id, sh := range h.snaps {
		if sh.snap != nil {
			sh.snap.Close()
		}
		delete(h.snaps, id)
	}
}

func (h *Hist) roundFailed(when string) {
	errs := h.OnErrors()
	var last error
	if len(errs) > 0 {
		last = errs[len(errs)-1]
	}
	if h.PersistErrFatal {
		h.Failf("%s: background persistence failed without any injected fault: %v", when, last)
	}
	h.Label("round-error-ignored")
}

func (h *Hist) step(i int, op Op) {
	when := fmt.Sprintf("op %d %s", i, op)
	switch op.Kind {
	case "batch":
		if h.closed {
			return
		}
		h.Exec(op.B)
		id := len(h.States) - 1
		if op.B.HasChildren() {
			h.hadChildren = true
		}
		if batchChildOnly(op.B) {
			h.Label("child-only-batch")
			h.childOnly[id] = true
		}
		if len(op.B.Ops) > 0 {
			allDel := true
			for _, kv := range op.B.Ops {
				if kv.Op != OpDel {
					allDel = false
				}
			}
			if allDel {
				h.Label("delete-only-batch")
			}
		}
		h.noteTouched(op.B, "", id)
		for _, sh := range h.snaps {
			sh.laterChange = true
		}
	case "mstep":
		if h.closed || !h.controlled {
			return
		}
		errsBefore := h.RoundErrs
		roundsBefore := h.Rounds
		h.MergerStep(op.MKind)
		for _, sh := range h.snaps {
			sh.mstep = true
		}
		h.afterRound(when, roundsBefore, errsBefore)
	case "hold":
		if h.closed || !h.controlled || h.Cfg.Backing == "mem" {
			return
		}
		if h.pState == pIdle {
			h.HoldNext(op.Gate)
			h.Label("hold:" + op.Gate)
		}
	case "prelease":
		if h.closed || !h.controlled || h.Cfg.Backing == "mem" {
			return
		}
		errsBefore := h.RoundErrs
		roundsBefore := h.Rounds
		if h.pState == pHeld {
			h.Label("released-held-round")
		}
		h.ReleasePersist(op.Gate)
		h.afterRound(when, roundsBefore, errsBefore)
	case "reopen":
		if h.closed || h.Cfg.Backing != "store" {
			return
		}
		h.reopen(when, op)
	case "snap":
		h.takeSnap(when, op)
	case "ssnap":
		h.takeStoreSnap(when, op)
	case "sprev":
		h.takeStorePrev(when, op)
	case "readsnap":
		h.readSnap(when, op.ID)
	case "closesnap":
		if sh, ok := h.snaps[op.ID]; ok {
			for id, ih := range h.iters {
				if ih.snap == op.ID {
					ih.it.Close()
					delete(h.iters, id)
				}
			}
			sh.snap.Close()
			delete(h.snaps, op.ID)
		}
	case "iter":
		h.openIter(when, op)
	case "iternext":
		h.iterNext(when, op)
	case "iterseek":
		h.iterSeek(when, op)
	case "itercur":
		if ih, ok := h.iters[op.ID]; ok {
			h.compareIter(when, ih, nil)
		}
	case "closeiter":
		if ih, ok := h.iters[op.ID]; ok {
			ih.it.Close()
			delete(h.iters, op.ID)
		}
	case "closecoll":
		if !h.closed {
			h.CloseColl()
			for _, sh := range h.snaps {
				sh.collClosed = true
			}
		}
	case "closestore":
		if h.closed && !h.storeClosed {
			h.CloseStore()
			for _, sh := range h.snaps {
				sh.storeClosed = true
			}
		}
	case "persistnil":
		h.persistNil(when)
	default:
		h.Failf("unknown op kind %q", op.Kind)
	}
}

func (h *Hist) afterRound(when string, roundsBefore, errsBefore int) {
	if h.RoundErrs > errsBefore {
		h.roundFailed(when)
		if h.O.Faults && h.Cfg.Backing == "store" && h.copiesAfterFault < 4 {
			h.copiesAfterFault++
			h.reopenCopyPrefix(when, h.Persisted)
		}
	}
	if h.Rounds > roundsBefore {
		for _, sh := range h.snaps {
			sh.round = true
		}
		if len(h.lastBase) > 0 {
			all := true
			for _, id := range h.lastBase {
				if !h.childOnly[id] {
					all = false
				}
			}
			if all {
				h.Label("child-only-round")
			}
		}
		h.noteCompactions()
	}
}

// noteCompactions reads the store's compaction counters and labels deltas.
func (h *Hist) noteCompactions() {
	if h.Store == nil || h.storeClosed {
		return
	}
	st, err := h.Store.Stats()
	if err != nil {
		return
	}
	tot, part := storeStatU(st, "total_compactions"), storeStatU(st, "total_compactions_partial")
	if tot > h.compTot {
		h.fullComp += int(tot - h.compTot)
		h.Label("compaction:full")
		for _, sh := range h.snaps {
			sh.compact = true
		}
		if h.O.Compaction {
			h.afterFullCompaction()
		}
	}
	if part > h.compPart {
		h.partComp += int(part - h.compPart)
		h.Label("compaction:partial")
	}
	h.compTot, h.compPart = tot, part
}

func (h *Hist) reopen(when string, op Op) {
	n := len(h.States) - 1
	if op.Drain {
		if !h.controlled {
			return
		}
		if !h.Drain() {
			h.roundFailed(when)
			if h.O.PersistErrFatal || (h.O.FinalReopen && (!h.O.Faults || h.faultsOff)) {
				h.Failf("%s: persistence does not catch up with the executed batches (persisted %d of %d, round errors: %v)",
					when, h.Persisted, n, h.OnErrors())
			}
		}
		h.noteCompactions()
	}
	lower := h.Persisted
	dirty := h.Dirty()
	h.closeHandles()
	h.CloseAll()
	if op.N != 1 {
		wait := time.Duration(500 * time.Millisecond)
		if h.hadChildren && excluded("child-handles") {
			wait = 0 // known leak: old files are never unlinked, do not wait for it
		}
		if !waitDirSettled(h.Dir, wait) && !h.Cfg.KeepFiles {
			h.Label("dir-not-settled-before-reopen")
		}
	} else {
		h.Label("reopen:immediately")
	}
	cfg := h.Cfg
	if op.Cfg != nil {
		cfg = *op.Cfg
		cfg.Backing = "store"
	}
	h.openWith(cfg, true)
	h.compTot, h.compPart = 0, 0
	h.noteCompactions()
	// what did we get back?
	snap, err := h.Coll.Snapshot()
	if err != nil {
		h.Failf("%s: Snapshot after reopen: %v", when, err)
	}
	defer snap.Close()
	if op.Drain && !dirty {
		if d := CompareSnapshot(snap, h.Model, h.storeReadOpts(), "reopened"); d != "" {
			h.Failf("%s: content after clean shutdown and reopen differs from reference (%d batches): %s", when, n, d)
		}
		h.Persisted = n
		h.Label("reopen:caught-up")
		return
	}
	// early close: must equal some prefix state p >= lower, never a mixture
	got, rerr := ReadTree(snap)
	if rerr != nil {
		h.Failf("%s: reading reopened collection: %v", when, rerr)
	}
	match := -1
	for p := n; p >= 0; p-- {
		if storeEqual(got, h.States[p]) {
			match = p
			break
		}
	}
	if match < 0 {
		h.Failf("%s: content after early close and reopen equals no prefix of the %d executed batches (last completed round covered %d); vs full reference: %s; vs covered prefix: %s",
			when, n, lower, got.Diff(h.States[n], "reopened"), got.Diff(h.States[lower], "reopened"))
	}
	if match < lower && !storeEqual(got, h.States[lower]) {
		h.Failf("%s: reopened content is the state after %d batches, but a completed round had covered %d", when, match, lower)
	}
	if match < n {
		h.Label("reopen:early-lost-suffix")
	} else {
		h.Label("reopen:early-complete")
	}
	// full check incl. Gets on the matched state, then continue from it
	if d := CompareSnapshot(snap, h.States[match], h.storeReadOpts(), "reopened"); d != "" {
		h.Failf("%s: reopened content (prefix %d): %s", when, match, d)
	}
	h.Model = h.States[match].Clone()
	h.States = h.States[:match+1 : match+1]
	h.Persisted = match
	// touched bookkeeping of lost batches is dropped
	for k, ids := range h.touched {
		j := 0
		for _, id := range ids {
			if id <= match {
				ids[j] = id
				j++
			}
		}
		h.touched[k] = ids[:j]
	}
}

func (h *Hist) final() {
	if h.Prog.Prop == "C13" {
		h.c13Final()
	}
	if h.O.Gauges && h.Cfg.Backing != "mem" && !h.closed && h.controlled {
		// converse: with no new input the gauges reach zero within a few
		// controller cycles
		if !h.Drain() {
			h.Failf("final: persistence does not catch up: after 6 merger cycles and persister rounds without new input %d of %d batches are covered (round errors: %v)",
				h.Persisted, len(h.States)-1, h.OnErrors())
		}
		st := h.stats()
		if st.CurDirtyOps != 0 || st.CurDirtyBytes != 0 || st.CurDirtySegments != 0 {
			h.Failf("final: the lower level has accepted every batch but the dirty gauges stay non-zero: ops=%d bytes=%d segments=%d",
				st.CurDirtyOps, st.CurDirtyBytes, st.CurDirtySegments)
		}
		h.checkGauges("final", len(h.Prog.Ops))
	}
	if h.O.FinalReopen && h.Cfg.Backing == "store" && !h.closed {
		h.reopen("final drain+reopen", Op{Kind: "reopen", Drain: true})
		if h.O.StoreEveryStep {
			h.CheckStore("after final reopen")
		}
		if h.O.Faults {
			// nothing scheduled during a failed round may take the good file
			// away later: close everything, let pending unlinks happen, look again
			h.CloseAll()
			time.Sleep(3 * time.Millisecond)
			h.reopenCopy("after the final close", h.Model, "after an I/O failure earlier in the history, closing the store loses data")
		}
	}
	if h.O.ReadPaths {
		h.closeHandles()
		h.CloseAll()
		h.checkRetained("after closing snapshot, collection and store")
	}
	if h.O.Handles && h.Cfg.Backing == "store" {
		h.CloseAll()
		for _, sh := range h.snaps {
			sh.collClosed, sh.storeClosed = true, true
		}
		for id := range h.snaps {
			h.readSnap("final re-read after collection and store close", id)
		}
		h.closeHandles()
		if h.hadChildren && excluded("child-handles") {
			h.Label("release-check-skipped:known-child-handle-leak")
		} else {
			h.CheckReleased("final")
		}
	}
}

// persistNil: Store.Persist(nil, CompactionForce) - "the higher snapshot may be
// nil" - called while the collection's persister is idle (single-threaded use).
// The store's content must not change.
func (h *Hist) persistNil(when string) {
	if h.Store == nil || h.closed || h.storeClosed || !h.controlled || h.pState != pIdle {
		return
	}
	h.FS.HarnessBegin()
	snap, err := h.Store.Persist(nil, moss.StorePersistOptions{CompactionConcern: moss.CompactionForce})
	h.FS.HarnessEnd()
	if err != nil {
		h.Failf("%s: Store.Persist(nil, CompactionForce): %v", when, err)
	}
	if snap != nil {
		if d := CompareSnapshot(snap, h.ExpectedStore(), h.readOpts(), "persist(nil)"); d != "" {
			snap.Close()
			h.Failf("%s: the snapshot returned by Store.Persist(nil, CompactionForce) differs from the store's content before it: %s", when, d)
		}
		snap.Close()
	}
	h.Label("persist-nil-forced")
	h.noteCompactions()
}

// classifyChildren labels deletions / recreations of a child whose earlier
// data sits in a different section (or is already persisted).
func (h *Hist) classifyChildren() {
	type ev struct {
		id  int
		del bool
	}
	byChild := map[string][]ev{}
	for k, ids := range h.touched {
		i := strings.Index(k, "\x00")
		path := k[:i]
		if path == "" {
			continue
		}
		del := strings.HasSuffix(k, "\x00delchild")
		for _, id := range ids {
			byChild[path] = append(byChild[path], ev{id, del})
			// a write to a/b is also an event of child a
			for j := 1; j < len(path); j++ {
				if path[j] == '/' {
					byChild[path[:j]] = append(byChild[path[:j]], ev{id, false})
				}
			}
		}
	}
	for _, l := range byChild {
		sort.Slice(l, func(i, j int) bool { return l[i].id < l[j].id })
		for i := 1; i < len(l); i++ {
			if !(l[i].del || l[i-1].del) {
				continue
			}
			a, b := h.section(l[i].id), h.section(l[i-1].id)
			if a != b && a != "?" && b != "?" {
				if l[i].del {
					h.Label("child-del-cross-section")
				} else {
					h.Label("child-recreate-cross-section")
					h.Label("child-del-cross-section")
				}
				h.Label("childshape:" + a + "-over-" + b)
			}
		}
	}
}
