package mv

import (
	"encoding/json"
	"fmt"
	"os"
	"time"

	"github.com/couchbase/moss"
)

// FaultSpec is one injected failure pattern.
type FaultSpec struct {
	Site      int    `json:"site"`            // index of the first failing file operation
	Shape     string `json:"shape"`           // single | burst | until
	K         int    `json:"k,omitempty"`     // burst length
	UntilStep int    `json:"until,omitempty"` // program step at which a persistent fault stops
	ShortPct  int    `json:"shortPct"`        // writes: <0 plain error, else short write of that percentage
	Silent    bool   `json:"silent,omitempty"` // the short write returns a nil error (only the byte count tells)
	Class     string `json:"class,omitempty"`  // quick tier: Site is taken modulo the sites of this class (header, footer, data, sync, stat, open) found in the baseline run
}

type C06Extra struct {
	Faults []FaultSpec `json:"faults,omitempty"`
	All    bool        `json:"all,omitempty"` // enumerate every site x kind x shape (thorough)
}

type c06Stats struct {
	runs      int
	hit       int
	labels    map[string]int
	samples   []string
	baselineN int
}

// runFaulted executes the program once with one fault pattern (nil = none).
// It returns the number of faultable operations seen and the hit counters.
func runFaulted(t TB, p *Program, f *FaultSpec) (nOps int, hits int, kinds map[string]int, h *Hist) {
	o := Oracles{CollEveryStep: true, StoreEveryStep: true, FinalReopen: true, Faults: true}
	cur := 0
	h = RunHistoryWith(t, p, o, func(e *Env) {
		e.Dir = newCaseDir()
		e.FS = NewFS(e.Dir)
		e.FS.DelayAfterFault = 2 * time.Millisecond
		e.FS.MaxCreates = 4096 // every retried round may create (and remove) a file
		e.FS.ClassifySites = f == nil
		e.curStep = &cur
		if f != nil {
			spec := *f
			e.FS.FaultFn = func(idx int, kind, name string, n int) *Fault { // called under FS.mu
				if e.faultsOff {
					return nil
				}
				active := false
				switch spec.Shape {
				case "single":
					active = idx == spec.Site
				case "burst":
					active = idx >= spec.Site && idx < spec.Site+spec.K
				case "until":
					active = idx >= spec.Site && *e.curStep < spec.UntilStep
				}
				if !active {
					return nil
				}
				if kind == "write" && spec.ShortPct >= 0 {
					return &Fault{Short: n * spec.ShortPct / 100, SilentShort: spec.Silent}
				}
				return &Fault{Short: -1, Err: ErrInjected}
			}
		}
	})
	nOps = h.FS.OpIndex()
	hits, kinds = h.FS.Hits()
	return
}

// RunC06 runs the fault-free baseline and then every planned fault.
func RunC06(t TB, p *Program) *c06Stats {
	var x C06Extra
	if len(p.Extra) > 0 {
		if err := json.Unmarshal(p.Extra, &x); err != nil {
			t.Fatalf("bad C06 extra: %v", err)
		}
	}
	st := &c06Stats{labels: map[string]int{}}
	n, _, _, hb := runFaulted(t, p, nil)
	st.baselineN = n
	byClass := map[string][]int{}
	for i, c := range hb.FS.SiteClasses {
		byClass[c] = append(byClass[c], i)
	}
	plans := x.Faults
	if x.All {
		plans = nil
		for site := 0; site < n && site < 150; site++ {
			for _, sp := range []int{-1, 0, 50} {
				plans = append(plans, FaultSpec{Site: site, Shape: "single", ShortPct: sp})
			}
			plans = append(plans, FaultSpec{Site: site, Shape: "single", ShortPct: 50, Silent: true})
			plans = append(plans, FaultSpec{Site: site, Shape: "burst", K: 3, ShortPct: -1})
			plans = append(plans, FaultSpec{Site: site, Shape: "until", UntilStep: len(p.Ops) / 2, ShortPct: -1})
		}
	}
	for i := range plans {
		f := plans[i]
		if l := byClass[f.Class]; f.Class != "" && len(l) > 0 {
			f.Site = l[f.Site%len(l)]
			f.Class = ""
		} else if n > 0 {
			f.Site = f.Site % n
		}
		q := *p
		b, _ := json.Marshal(&C06Extra{Faults: []FaultSpec{f}})
		q.Extra = b // a failing run is replayable with exactly this fault
		_, hits, kinds, h := runFaulted(t, &q, &f)
		st.runs++
		if hits > 0 {
			st.hit++
			for k, v := range kinds {
				if v > 0 {
					st.labels["fault:"+k+"/"+f.Shape]++
				}
			}
			if f.ShortPct >= 0 && kinds["write"] > 0 {
				st.labels["short-write"]++
			}
			if h.RoundErrs > 0 {
				st.labels["round-failed-and-surfaced"]++
			}
			if h.fullComp+h.partComp > 0 {
				st.labels["with-compaction"]++
			}
			if len(st.samples) < 2 && st.hit%5 == 1 {
				st.samples = append(st.samples, fmt.Sprintf("fault %+v (hit %v, round errors %d) on %s", f, kinds, h.RoundErrs, p.Compact()))
			}
		}
	}
	return st
}

// reopenCopyPrefix: a copy of the directory must reopen to the reference after
// some batch prefix p >= lower.
func (h *Hist) reopenCopyPrefix(when string, lower int) {
	cp := h.Dir + ".copy"
	os.RemoveAll(cp)
	if err := copyDir(h.Dir, cp); err != nil {
		h.Failf("copyDir: %v", err)
	}
	defer os.RemoveAll(cp)
	so := moss.StoreOptions{}
	so.CollectionOptions.MergeOperator = &verifMergeOp{}
	s, c, err := moss.OpenStoreCollection(cp, so, moss.StorePersistOptions{})
	if err != nil {
		h.Failf("%s: after an I/O failure a copy of the directory cannot be reopened: %v [%s] [%s]", when, err, dirListing(cp), diagnoseDir(cp))
	}
	defer s.Close()
	defer c.Close()
	snap, err := c.Snapshot()
	if err != nil {
		h.Failf("%s: Snapshot of reopened copy: %v", when, err)
	}
	defer snap.Close()
	got, rerr := ReadTree(snap)
	if rerr != nil {
		h.Failf("%s: after an I/O failure the reopened copy of the directory cannot be read: %v", when, rerr)
	}
	for p := len(h.States) - 1; p >= 0; p-- {
		if storeEqual(got, h.States[p]) {
			if p < lower && !storeEqual(got, h.States[lower]) {
				h.Failf("%s: after an I/O failure the directory reopens to the state after %d batches, but a successful round had covered %d (a good file was replaced or lost)", when, p, lower)
			}
			return
		}
	}
	h.Failf("%s: after an I/O failure the directory reopens to content that equals no batch prefix: vs covered prefix %d: %s", when, lower, got.Diff(h.States[lower], "reopened-copy"))
}
