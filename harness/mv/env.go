package mv

import (
	"bytes"
	"fmt"
	"os"
	"path/filepath"
	"runtime"
	"sort"
	"strings"
	"sync"
	"sync/atomic"
	"time"

	"github.com/couchbase/moss"
)

// TB is what the executor needs from rapid.T / testing.T.
type TB interface {
	Fatalf(format string, args ...interface{})
	Logf(format string, args ...interface{})
}

var scratchRoot = func() string {
	base := "/dev/shm"
	if st, err := os.Stat(base); err != nil || !st.IsDir() {
		base = os.TempDir()
	}
	d := filepath.Join(base, fmt.Sprintf("mossverif-%d", os.Getpid()))
	os.MkdirAll(d, 0700)
	return d
}()

var caseSeq int64

func newCaseDir() string {
	n := atomic.AddInt64(&caseSeq, 1)
	d := filepath.Join(scratchRoot, fmt.Sprintf("c%06d", n))
	os.RemoveAll(d)
	os.MkdirAll(d, 0700)
	return d
}

// StallTimeout bounds every controller wait (expected: micro- to milliseconds).
var StallTimeout = 60 * time.Second

// On an oversubscribed machine (1-minute load above the number of CPUs when
// the process starts) the bound is stretched by the same factor, at most 6x:
// the waits measure "never", not speed.
func init() {
	b, err := os.ReadFile("/proc/loadavg")
	if err != nil {
		return
	}
	var l1 float64
	if _, err := fmt.Sscanf(string(b), "%f", &l1); err != nil {
		return
	}
	if f := l1 / float64(runtime.NumCPU()); f > 1 {
		if f > 6 {
			f = 6
		}
		StallTimeout = time.Duration(float64(StallTimeout) * f)
	}
}

// verifMergeOp is the oracle merge operator (see MergeFold).
type verifMergeOp struct{ calls int64 }

func (m *verifMergeOp) Name() string { return "verif-fold" }
func (m *verifMergeOp) FullMerge(key, existing []byte, operands [][]byte) ([]byte, bool) {
	atomic.AddInt64(&m.calls, 1)
	cur := existing
	for _, o := range operands {
		cur = MergeFold(cur, o)
	}
	return cur, true
}
func (m *verifMergeOp) PartialMerge(key, l, r []byte) ([]byte, bool) { return nil, false }

type pSignal struct {
	ok  bool
	err error
}

const (
	pIdle = iota
	pHeld
	pErrParked
)

// Env is one running case: collection (+store), model, controller.
type Env struct {
	T    TB
	Prog *Program
	Cfg  Config
	Dir  string
	FS   *FS

	Store *moss.Store
	Coll  moss.Collection
	LL    *LowLevel

	Model  *Node
	States []*Node // States[i]: reference content after i batches

	// controller
	controlled bool
	mGate      *Gate
	pErrGate   *Gate
	llGate     *Gate
	llArmed    int32
	pSig       chan pSignal
	pState     int
	errMu      sync.Mutex
	lastErrMu  sync.Mutex
	lastErr    error
	onErrors   []error
	mergeOp    *verifMergeOp

	// bookkeeping (batch indices, 1-based: batch i produced States[i])
	top, mid, base, clean []int
	lastBase              []int
	OnRound               func() // called after every completed round
	curStep               *int
	perturb               func() // free-running checks: schedule perturbation at event points
	faultsOff             bool
	Persisted             int // States[Persisted] is what the lower level holds
	Rounds                int // completed ok rounds
	DataRounds            int // completed rounds that carried batches
	RoundErrs             int
	PersistErrFatal       bool // a round failing without injected fault is a violation
	IgnoreRoundErr        bool
	closed                bool
	storeClosed           bool

	Labels map[string]int
	Notes  []string

	universe [][]byte
}

func NewEnv(t TB, p *Program) *Env {
	e := &Env{T: t, Prog: p, Cfg: p.Cfg, Labels: map[string]int{}}
	e.Model = NewNode()
	e.States = []*Node{e.Model.Clone()}
	e.universe = Universe(p)
	return e
}

func (e *Env) Label(l string) { e.Labels[l]++ }

// Failf reports a property violation for this case.
func (e *Env) Failf(format string, args ...interface{}) {
	msg := fmt.Sprintf(format, args...)
	recordFailure(e.Prog, msg)
	if dbg := os.Getenv("VERIF_DEBUGLOG"); dbg != "" {
		f, _ := os.OpenFile(dbg, os.O_APPEND|os.O_CREATE|os.O_WRONLY, 0644)
		fmt.Fprintf(f, "FAIL %s %s\n", e.Prog.Hash(), msg)
		f.Close()
	}
	e.T.Logf("program: %s", e.Prog.Compact())
	e.T.Fatalf("%s", msg)
}

// stall: a controller wait expired.  The process state is unusable
// afterwards (moss goroutines are stuck), so the shard exits with code 3
// after writing what it saw.
func (e *Env) stall(what string) {
	buf := make([]byte, 1<<20)
	n := runtime.Stack(buf, true)
	msg := fmt.Sprintf("STALL: %s\nprogram: %s\n\n%s", what, e.Prog.JSON(), buf[:n])
	recordStall(e.Prog, msg)
	fmt.Fprintf(os.Stderr, "STALL: %s\n", what)
	os.Exit(3)
}

// ---------------------------------------------------------------
// options

func (c *Config) collOptions(e *Env) moss.CollectionOptions {
	co := moss.CollectionOptions{
		MinMergePercentage:  c.MinMergePct,
		DeferredSort:        c.DeferredSort,
		CachePersisted:      c.CachePersisted,
		MaxPreMergerBatches: c.MaxPreMergerBatches,
		MaxDirtyOps:         c.MaxDirtyOps,
		MaxDirtyKeyValBytes: c.MaxDirtyBytes,
	}
	if c.MergeOp {
		if e.mergeOp == nil {
			e.mergeOp = &verifMergeOp{}
		}
		co.MergeOperator = e.mergeOp
	}
	return co
}

func (c *Config) storeOptions(e *Env) (moss.StoreOptions, moss.StorePersistOptions) {
	so := moss.StoreOptions{
		CollectionOptions:           c.collOptions(e),
		CompactionPercentage:        c.CompactionPct,
		CompactionLevelMaxSegments:  c.LevelMaxSegs,
		CompactionLevelMultiplier:   c.LevelMultiplier,
		CompactionBufferPages:       c.BufferPages,
		CompactionSync:              c.CompactionSync,
		CompactionSyncAfterBytes:    c.SyncAfterBytes,
		KeepFiles:                   c.KeepFiles,
		SegmentKeysIndexMaxBytes:    c.IdxMaxBytes,
		SegmentKeysIndexMinKeyBytes: c.IdxMinKeyBytes,
	}
	po := moss.StorePersistOptions{NoSync: c.NoSync, CompactionConcern: moss.CompactionConcern(c.Compaction)}
	return so, po
}

func (e *Env) maxTop() int {
	n := e.Cfg.MaxPreMergerBatches
	if n <= 0 {
		n = moss.DefaultCollectionOptions.MaxPreMergerBatches
	}
	return n
}

// ---------------------------------------------------------------
// callbacks

func (e *Env) onEvent(ev moss.Event) {
	if e.perturb != nil {
		e.perturb()
	}
	switch ev.Kind {
	case moss.EventKindMergerProgress:
		e.mGate.Enter("merger")
	case moss.EventKindPersisterProgress:
		select {
		case e.pSig <- pSignal{ok: true}:
		default:
		}
	}
}

func (e *Env) onError(err error) {
	e.errMu.Lock()
	e.onErrors = append(e.onErrors, err)
	e.errMu.Unlock()
	e.lastErrMu.Lock()
	e.lastErr = err
	e.lastErrMu.Unlock()
	e.pErrGate.Enter("onerror")
}

func (e *Env) OnErrors() []error {
	e.errMu.Lock()
	defer e.errMu.Unlock()
	return append([]error(nil), e.onErrors...)
}

// ---------------------------------------------------------------
// open / close

// Open creates the collection (and store) in controlled mode and parks
// the merger.
func (e *Env) Open() {
	if e.Dir == "" {
		e.Dir = newCaseDir()
	}
	e.openWith(e.Cfg, true)
}

func (e *Env) openWith(cfg Config, controlled bool) {
	e.Cfg = cfg
	e.mGate = NewGate()
	e.pErrGate = NewGate()
	sig := make(chan pSignal, 4096)
	e.pSig = sig
	e.pErrGate.onParked = func(string) {
		e.lastErrMu.Lock()
		err := e.lastErr
		e.lastErrMu.Unlock()
		select {
		case sig <- pSignal{ok: false, err: err}:
		default:
		}
	}
	e.llGate = NewGate()
	e.pState = pIdle
	e.top, e.mid, e.base, e.clean = nil, nil, nil, nil
	e.closed, e.storeClosed = false, false
	e.Coll, e.Store = nil, nil
	e.controlled = controlled
	if !controlled {
		e.mGate.Open()
		e.pErrGate.Open()
		e.llGate.Open()
	}
	switch cfg.Backing {
	case "mem":
		co := cfg.collOptions(e)
		co.OnEvent = e.onEvent
		co.OnError = e.onError
		c, err := moss.NewCollection(co)
		if err != nil {
			e.Failf("NewCollection: %v", err)
		}
		c.Start()
		e.Coll = c
	case "ll":
		if e.LL == nil {
			e.LL = NewLowLevel()
		}
		co := cfg.collOptions(e)
		co.OnEvent = e.onEvent
		co.OnError = e.onError
		co.LowerLevelInit = e.LL.Snapshot()
		co.LowerLevelUpdate = e.llUpdate
		c, err := moss.NewCollection(co)
		if err != nil {
			e.Failf("NewCollection: %v", err)
		}
		c.Start()
		e.Coll = c
	case "store":
		if e.FS == nil {
			e.FS = NewFS(e.Dir)
		}
		if controlled {
			e.FS.gate.Shut()
		} else {
			e.FS.gate.Open()
		}
		so, po := cfg.storeOptions(e)
		so.CollectionOptions.OnEvent = e.onEvent
		so.CollectionOptions.OnError = e.onError
		so.OpenFile = e.FS.OpenFile
		e.FS.HarnessBegin()
		s, c, err := moss.OpenStoreCollection(e.Dir, so, po)
		e.FS.HarnessEnd()
		if err != nil {
			e.Failf("OpenStoreCollection(%s): %v [dir: %s] [%s]", cfg.String(), err, dirListing(e.Dir), diagnoseDir(e.Dir))
		}
		e.Store, e.Coll = s, c
	default:
		e.Failf("bad backing %q", cfg.Backing)
	}
	if controlled {
		e.MergerStep("")
		// The parking cycle hands an empty stack to the persister (when a
		// lower level exists); make sure that round is over.
		e.settlePersister()
	}
}

// FreeRun opens every gate: background goroutines run freely from now on.
func (e *Env) FreeRun() {
	e.controlled = false
	if e.FS != nil {
		e.FS.Disarm()
		e.FS.gate.Open()
	}
	atomic.StoreInt32(&e.llArmed, 0)
	e.llGate.Open()
	e.pErrGate.Open()
	e.mGate.Open()
}

// CloseAll closes collection and store (gates opened first).
func (e *Env) CloseAll() {
	e.CloseColl()
	e.CloseStore()
}

func (e *Env) CloseColl() {
	if e.Coll != nil && !e.closed {
		e.FreeRun()
		done := make(chan struct{})
		go func() { e.Coll.Close(); close(done) }()
		select {
		case <-done:
		case <-time.After(StallTimeout):
			e.stall("Collection.Close did not return")
		}
		e.closed = true
	}
}

func (e *Env) CloseStore() {
	if e.Store != nil && !e.storeClosed && (e.Coll == nil || e.closed) {
		e.Store.Close()
		e.storeClosed = true
	}
}

// Cleanup releases everything and removes the scratch directory.
func (e *Env) Cleanup() {
	if r := recover(); r != nil {
		e.cleanup()
		panic(r)
	}
	e.cleanup()
}

func (e *Env) cleanup() {
	if e.Coll != nil {
		e.CloseAll()
	}
	if e.Dir != "" {
		if os.Getenv("VERIF_KEEP") != "" {
			fmt.Fprintf(os.Stderr, "KEEP %s: %s\n", e.Dir, dirListing(e.Dir))
		}
		os.RemoveAll(e.Dir)
	}
}

func dirListing(dir string) string {
	ents, err := os.ReadDir(dir)
	if err != nil {
		return err.Error()
	}
	var s []string
	for _, en := range ents {
		sz := int64(-1)
		if fi, err := en.Info(); err == nil {
			sz = fi.Size()
		}
		s = append(s, fmt.Sprintf("%s(%d)", en.Name(), sz))
	}
	return strings.Join(s, ",")
}

func dataFiles(dir string) []string {
	ents, _ := os.ReadDir(dir)
	var s []string
	for _, en := range ents {
		if strings.HasPrefix(en.Name(), "data-") && strings.HasSuffix(en.Name(), ".moss") {
			s = append(s, en.Name())
		}
	}
	sort.Strings(s)
	return s
}

// waitDirSettled polls until the directory holds at most one data file
// (unlinking of superseded files is asynchronous).
func waitDirSettled(dir string, max time.Duration) bool {
	dl := time.Now().Add(max)
	for {
		if len(dataFiles(dir)) <= 1 {
			return true
		}
		if time.Now().After(dl) {
			return false
		}
		time.Sleep(200 * time.Microsecond)
	}
}

// ---------------------------------------------------------------
// controller steps

func (e *Env) stats() *moss.CollectionStats {
	st, err := e.Coll.Stats()
	if err != nil {
		e.Failf("Stats: %v", err)
	}
	return st
}

type notifier interface {
	NotifyMerger(kind string, synchronous bool) error
}

func (e *Env) notify(kind string, sync bool) {
	n, ok := e.Coll.(notifier)
	if !ok {
		e.Failf("collection has no NotifyMerger")
	}
	done := make(chan struct{})
	go func() { n.NotifyMerger(kind, sync); close(done) }()
	select {
	case <-done:
	case <-time.After(StallTimeout):
		e.stall("NotifyMerger(" + kind + ") did not return")
	}
}

// MergerStep runs exactly one merger cycle and leaves the merger parked.
// If the cycle handed mid over to an idle persister, the round that follows
// runs until it parks (armed gate), fails or completes.
func (e *Env) MergerStep(kind string) {
	if !e.controlled {
		e.Failf("MergerStep in free-running mode")
	}
	before := e.stats().TotMergerLowerLevelNotify
	e.mGate.drainArrived()
	// The ping is queued while the merger is provably parked (or, the very
	// first time, asleep waiting for work); only then is it released, so it
	// runs exactly one cycle.
	parked := e.mGate.Parked() > 0
	e.notify(kind, false)
	if parked {
		e.mGate.Release()
	}
	select {
	case <-e.mGate.arrived:
	case <-time.After(StallTimeout):
		e.stall("merger did not complete a cycle")
	}
	e.mid = append(e.mid, e.top...)
	e.top = nil
	after := e.stats().TotMergerLowerLevelNotify
	if after > before {
		e.base = e.mid
		e.mid = nil
		if e.pState == pIdle {
			e.waitPersister()
		}
	}
}

// waitPersister waits for the running round to park at a gate or to end.
func (e *Env) waitPersister() {
	var gateArrived chan string
	if e.FS != nil {
		gateArrived = e.FS.gate.arrived
	}
	select {
	case <-gateArrived:
		e.pState = pHeld
	case <-e.llGate.arrived:
		e.pState = pHeld
	case s := <-e.pSig:
		if s.ok {
			e.roundOK()
		} else {
			e.RoundErrs++
			e.pState = pErrParked
		}
	case <-time.After(StallTimeout):
		e.stall("persister round neither parked nor ended")
	}
}

func (e *Env) roundOK() {
	e.Rounds++
	e.pState = pIdle
	if n := len(e.base); n > 0 {
		e.Persisted = e.base[n-1]
		e.DataRounds++
	}
	e.lastBase = e.base
	defer func() {
		if e.OnRound != nil {
			e.OnRound()
		}
	}()
	if e.Cfg.CachePersisted {
		e.clean = e.base
	} else {
		e.clean = nil
	}
	e.base = nil
}

// settlePersister lets a pending/held/failed round run to its end without
// arming new gates; returns false if the last round ended with an error.
func (e *Env) settlePersister() bool {
	for i := 0; i < 3; i++ {
		switch e.pState {
		case pIdle:
			return true
		case pHeld:
			e.ReleasePersist("")
		case pErrParked:
			e.ReleasePersist("")
		}
	}
	return e.pState == pIdle
}

// HoldNext arms a persister gate: the next round parks there.
func (e *Env) HoldNext(gate string) {
	if e.Cfg.Backing == "store" {
		e.FS.Arm(gate)
	} else if e.Cfg.Backing == "ll" {
		atomic.StoreInt32(&e.llArmed, 1)
	}
}

// ReleasePersist continues a held or failed round up to the next park point.
func (e *Env) ReleasePersist(nextGate string) {
	switch e.pState {
	case pHeld:
		if nextGate != "" {
			e.HoldNext(nextGate)
		}
		if e.FS != nil {
			e.FS.gate.Release()
		}
		e.llGate.Release()
		e.waitPersister()
	case pErrParked:
		if nextGate != "" {
			e.HoldNext(nextGate)
		}
		e.pErrGate.Release()
		e.waitPersister()
	}
}

// Dirty reports whether the bookkeeping knows of unpersisted batches.
func (e *Env) Dirty() bool {
	return len(e.top)+len(e.mid)+len(e.base) > 0
}

// Drain (controlled): merger cycles and persister rounds until every
// executed batch has been covered by a round that completed.  Returns
// false when persistence cannot catch up within the bound.
func (e *Env) Drain() bool {
	if e.Cfg.Backing == "mem" {
		return true
	}
	if e.FS != nil {
		e.FS.Disarm()
	}
	atomic.StoreInt32(&e.llArmed, 0)
	for i := 0; i < 6; i++ {
		e.settlePersister()
		if !e.Dirty() && e.pState == pIdle {
			return true
		}
		if e.pState == pIdle {
			e.MergerStep("")
		}
	}
	e.settlePersister()
	return !e.Dirty() && e.pState == pIdle
}

// ---------------------------------------------------------------
// batches

// Exec executes a batch against the collection and the model.
func (e *Env) Exec(b *Batch) {
	if e.controlled && len(e.top) >= e.maxTop() {
		e.MergerStep("")
	}
	mb, err := e.buildBatch(e.Coll, b)
	if err != nil {
		e.Failf("building batch %s: %v", b, err)
	}
	done := make(chan error, 1)
	go func() { done <- e.Coll.ExecuteBatch(mb, moss.WriteOptions{}) }()
	select {
	case err = <-done:
	case <-time.After(StallTimeout):
		e.stall("ExecuteBatch did not return")
	}
	if err != nil {
		e.Failf("ExecuteBatch(%s): %v", b, err)
	}
	mb.Close()
	e.Model.Apply(b)
	e.States = append(e.States, e.Model.Clone())
	if !batchIsNoop(b) {
		e.top = append(e.top, len(e.States)-1)
	} else if len(e.top)+len(e.mid)+len(e.base) == 0 {
		// an empty batch changes nothing: it is trivially persisted
		if e.Persisted == len(e.States)-2 {
			e.Persisted = len(e.States) - 1
		}
	}
}

func batchIsNoop(b *Batch) bool {
	return b == nil || (len(b.Ops) == 0 && len(b.Children) == 0)
}

func (e *Env) buildBatch(coll moss.Collection, b *Batch) (moss.Batch, error) {
	ops, bytesN := b.NumOpsTop(), b.bytesTop()
	mb, err := coll.NewBatch(ops, bytesN)
	if err != nil {
		return nil, err
	}
	if err := e.fillBatch(mb, b); err != nil {
		return nil, err
	}
	return mb, nil
}

func (b *Batch) NumOpsTop() int { return len(b.Ops) }
func (b *Batch) bytesTop() int {
	n := 0
	for _, kv := range b.Ops {
		// rejected operations are appended to the buffer before they are
		// refused, so they need room as well
		n += len(kv.K) + len(kv.V)
	}
	return n
}

func (e *Env) fillBatch(mb moss.Batch, b *Batch) error {
	for _, kv := range b.Ops {
		var err error
		if kv.Alloc && !kv.Reject {
			buf, aerr := mb.Alloc(len(kv.K) + len(kv.V))
			if aerr != nil {
				return fmt.Errorf("Alloc(%d): %v", len(kv.K)+len(kv.V), aerr)
			}
			copy(buf, kv.K)
			copy(buf[len(kv.K):], kv.V)
			k, v := buf[:len(kv.K)], buf[len(kv.K):]
			switch kv.Op {
			case OpSet:
				err = mb.AllocSet(k, v)
			case OpDel:
				err = mb.AllocDel(k)
			case OpMerge:
				err = mb.AllocMerge(k, v)
			}
		} else {
			switch kv.Op {
			case OpSet:
				err = mb.Set(kv.K, kv.V)
			case OpDel:
				err = mb.Del(kv.K)
			case OpMerge:
				err = mb.Merge(kv.K, kv.V)
			}
		}
		if kv.Reject {
			want := moss.ErrKeyTooLarge
			if len(kv.K) <= 1<<24-1 {
				want = moss.ErrValueTooLarge
			}
			if err != want {
				return fmt.Errorf("oversize op %s: got error %v, want %v", kv, err, want)
			}
			continue
		}
		if err != nil {
			return fmt.Errorf("op %s: %v", kv, err)
		}
	}
	for i := range b.Children {
		cb := &b.Children[i]
		if cb.Del {
			if err := mb.DelChildCollection(cb.Name); err != nil {
				return err
			}
			continue
		}
		sub := cb.B
		if sub == nil {
			sub = &Batch{}
		}
		cmb, err := mb.NewChildCollectionBatch(cb.Name, moss.BatchOptions{TotalOps: sub.NumOpsTop(), TotalKeyValBytes: sub.bytesTop()})
		if err != nil {
			return err
		}
		if err := e.fillBatch(cmb, sub); err != nil {
			return err
		}
	}
	return nil
}

// ---------------------------------------------------------------
// universe of probe keys

// Universe returns every key mentioned anywhere in the program plus
// never-set neighbours, sorted and de-duplicated.
func Universe(p *Program) [][]byte {
	set := map[string]bool{}
	var walk func(b *Batch)
	walk = func(b *Batch) {
		if b == nil {
			return
		}
		for _, kv := range b.Ops {
			if len(kv.K) <= 4096 {
				set[string(kv.K)] = true
			}
		}
		for i := range b.Children {
			walk(b.Children[i].B)
		}
	}
	for _, op := range p.Ops {
		walk(op.B)
	}
	base := make([]string, 0, len(set))
	for k := range set {
		base = append(base, k)
	}
	sort.Strings(base)
	for i, k := range base {
		if i >= 64 {
			break
		}
		set[k+"\x00"] = true
		if len(k) > 0 {
			set[k[:len(k)-1]] = true
			kb := []byte(k)
			if kb[len(kb)-1] < 0xff {
				kb[len(kb)-1]++
				set[string(kb)] = true
			}
		}
	}
	set[""] = true
	set["\xff\xff\xff"] = true
	out := make([][]byte, 0, len(set))
	for k := range set {
		out = append(out, []byte(k))
	}
	sort.Slice(out, func(i, j int) bool { return bytes.Compare(out[i], out[j]) < 0 })
	return out
}

// diagnoseDir tries ReadFooter on every data file and reports the errors.
func diagnoseDir(dir string) string {
	var out []string
	for _, name := range dataFiles(dir) {
		f, err := os.OpenFile(filepath.Join(dir, name), os.O_RDONLY, 0)
		if err != nil {
			out = append(out, name+": "+err.Error())
			continue
		}
		so := moss.StoreOptions{}
		func() {
			defer func() {
				if r := recover(); r != nil {
					out = append(out, fmt.Sprintf("%s: ReadFooter panics: %v", name, r))
				}
			}()
			ft, err := moss.ReadFooter(&so, f)
			if err != nil {
				out = append(out, fmt.Sprintf("%s: ReadFooter: %v", name, err))
				f.Close()
				return
			}
			out = append(out, name+": ReadFooter ok")
			ft.Close()
		}()
	}
	return strings.Join(out, "; ")
}
