package mv

import (
	"encoding/json"
	"fmt"
	"time"

	"github.com/couchbase/moss"
)

// C13Extra configures the application lower level of a C13 program.
type C13Extra struct {
	FailPlan []bool `json:"failPlan,omitempty"`
	Free     bool   `json:"free,omitempty"` // free-running (no controller)
}

// RunC13 executes one C13 program.
func RunC13(t TB, p *Program) *Hist {
	var x C13Extra
	if len(p.Extra) > 0 {
		if err := json.Unmarshal(p.Extra, &x); err != nil {
			t.Fatalf("bad C13 extra: %v", err)
		}
	}
	if x.Free {
		return runC13Free(t, p, &x)
	}
	o := Oracles{CollEveryStep: true, StoreEveryStep: true}
	h := RunHistoryWith(t, p, o, func(e *Env) {
		e.LL = NewLowLevel()
		e.LL.FailPlan = x.FailPlan
	})
	return h
}

// c13Final: checks that need the collection drained; called from Hist.final.
func (h *Hist) c13Final() {
	if h.LL == nil || h.closed || !h.controlled {
		return
	}
	if !h.Drain() {
		h.Failf("final: the lower level never receives every mutation: %d of %d batches after 6 cycles (errors: %v)",
			h.Persisted, len(h.States)-1, h.OnErrors())
	}
	if d := h.LL.Root().Diff(h.Model, "ll"); d != "" {
		h.Failf("final: after draining the lower level differs from the reference: %s", d)
	}
	h.checkOffers()
}

// checkOffers: after a failed LowerLevelUpdate the same mutations are offered
// again; every successful update leaves a batch-prefix state, never going back.
func (h *Hist) checkOffers() {
	ll := h.LL
	ll.mu.Lock()
	offers := append([]string(nil), ll.Offers...)
	failed := append([]bool(nil), ll.OfferFailed...)
	roots := append([]*Node(nil), ll.Roots...)
	perr := append([]string(nil), ll.ProtocolErrors...)
	ll.mu.Unlock()
	if len(perr) > 0 {
		h.Failf("the snapshot handed to LowerLevelUpdate could not be read by the documented protocol: %v", perr)
	}
	for i := 0; i+1 < len(offers); i++ {
		if failed[i] {
			h.Label("failed-update")
			if offers[i+1] != offers[i] {
				h.Failf("after LowerLevelUpdate call %d failed, the next call offers different mutations:\n failed: %s\n next:   %s", i, clip(offers[i], 600), clip(offers[i+1], 600))
			}
		}
	}
	last := 0
	for i, r := range roots {
		match := -1
		for p := last; p < len(h.States); p++ { // smallest p >= last: greedy monotone matching
			if r.Equal(h.States[p]) {
				match = p
				break
			}
		}
		if match < 0 {
			// maybe it went backwards
			for p := last - 1; p >= 0; p-- {
				if r.Equal(h.States[p]) {
					h.Failf("lower level after successful update %d equals the reference after %d batches, but an earlier update had already covered %d", i, p, last)
				}
			}
			h.Failf("lower level after successful update %d equals no batch-prefix state (mixture or loss); vs full reference: %s", i, r.Diff(h.Model, "ll"))
		}
		last = match
	}
	if n := ll.UseAfterCloseCount(); n > 0 {
		h.Failf("the collection read %d time(s) from a lower-level snapshot after closing it", n)
	}
}

func clip(s string, n int) string {
	if len(s) > n {
		return s[:n] + "..."
	}
	return s
}

// runC13Free: free-running collection over the application lower level,
// with back-pressure options and a failure plan.
func runC13Free(t TB, p *Program, x *C13Extra) *Hist {
	journal(p)
	e := NewEnv(t, p)
	h := &Hist{Env: e, snaps: map[int]*snapHandle{}, iters: map[int]*iterHandle{}, touched: map[string][]int{}, childOnly: map[int]bool{}}
	defer h.finish()
	e.LL = NewLowLevel()
	e.LL.FailPlan = x.FailPlan
	e.openWith(e.Cfg, false)
	h.Label("free-running")
	for _, op := range p.Ops {
		if op.Kind != "batch" {
			continue
		}
		e.Exec(op.B)
	}
	// wait for the drain: the lower level must end up equal to the reference
	dl := time.Now().Add(StallTimeout)
	for {
		e.notify("mergeAll", true)
		if e.LL.Root().Equal(e.Model) {
			break
		}
		if time.Now().After(dl) {
			st := e.stats()
			h.Failf("free-running: the lower level never equals the reference (dirty ops=%d segments=%d, updates=%d, fails=%d): %s",
				st.CurDirtyOps, st.CurDirtySegments, e.LL.Updates, e.LL.Fails, e.LL.Root().Diff(e.Model, "ll"))
		}
		time.Sleep(200 * time.Microsecond)
	}
	e.CheckColl("free-running, after drain")
	e.CloseAll()
	h.checkOffersFree()
	return h
}

func (h *Hist) checkOffersFree() {
	// in free-running mode the base may change between a failure and the
	// retry only if the failed base was... it cannot: the persister retries
	// the same stack.  So the same rule applies.
	h.checkOffers()
}

func (l *LowLevel) UseAfterCloseCount() int64 {
	l.mu.Lock()
	defer l.mu.Unlock()
	return l.UseAfterClose
}

var _ = fmt.Sprintf
var _ moss.Snapshot
