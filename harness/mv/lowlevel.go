package mv

import (
	"bytes"
	"fmt"
	"hash/fnv"
	"sort"
	"sync"
	"sync/atomic"

	"github.com/couchbase/moss"
)

// LowLevel is an application-supplied lower-level store: a sequence of
// immutable ordered-map snapshots (with child collections), updated by the
// documented protocol.
type LowLevel struct {
	mu      sync.Mutex
	root    *Node
	Updates int
	Fails   int
	// FailPlan[i] == true: the i-th call of LowerLevelUpdate fails.
	FailPlan []bool
	calls    int
	// Offers records, per call, the entries enumerated from `higher`.
	Offers []string
	// OfferFailed[i]: call i was made to fail.
	OfferFailed []bool
	// Roots records the content after every successful update.
	Roots []*Node
	// handle accounting
	OpenSnaps      int64
	OpenIters      int64
	UseAfterClose  int64
	ProtocolErrors []string
	Slow           func() // optional delay hook (C16)
}

func NewLowLevel() *LowLevel { return &LowLevel{root: NewNode()} }

func (l *LowLevel) Root() *Node {
	l.mu.Lock()
	defer l.mu.Unlock()
	return l.root
}

func (l *LowLevel) Snapshot() moss.Snapshot {
	l.mu.Lock()
	defer l.mu.Unlock()
	atomic.AddInt64(&l.OpenSnaps, 1)
	return &llSnap{l: l, n: l.root, top: true}
}

type llSnap struct {
	l      *LowLevel
	n      *Node
	top    bool
	closed int32
}

func (s *llSnap) check() {
	if atomic.LoadInt32(&s.closed) != 0 {
		s.l.mu.Lock()
		s.l.UseAfterClose++
		s.l.mu.Unlock()
	}
}

func (s *llSnap) Close() error {
	if atomic.AddInt32(&s.closed, 1) == 1 {
		atomic.AddInt64(&s.l.OpenSnaps, -1)
	}
	return nil
}

func (s *llSnap) Get(key []byte, ro moss.ReadOptions) ([]byte, error) {
	s.check()
	v, ok := s.n.KV[string(key)]
	if !ok {
		return nil, nil
	}
	return append([]byte{}, v...), nil
}

func (s *llSnap) ChildCollectionNames() ([]string, error) {
	s.check()
	return s.n.ChildNames(), nil
}

func (s *llSnap) ChildCollectionSnapshot(name string) (moss.Snapshot, error) {
	s.check()
	c, ok := s.n.Children[name]
	if !ok {
		return nil, nil
	}
	atomic.AddInt64(&s.l.OpenSnaps, 1)
	return &llSnap{l: s.l, n: c}, nil
}

func (s *llSnap) StartIterator(start, end []byte, opts moss.IteratorOptions) (moss.Iterator, error) {
	s.check()
	it := &llIter{l: s.l}
	for _, k := range s.n.Keys() {
		kb := []byte(k)
		if start != nil && bytes.Compare(kb, start) < 0 {
			continue
		}
		if end != nil && bytes.Compare(kb, end) >= 0 {
			continue
		}
		it.keys = append(it.keys, kb)
		it.vals = append(it.vals, s.n.KV[k])
	}
	atomic.AddInt64(&s.l.OpenIters, 1)
	return it, nil
}

type llIter struct {
	l      *LowLevel
	keys   [][]byte
	vals   [][]byte
	pos    int
	closed int32
}

func (it *llIter) Close() error {
	if atomic.AddInt32(&it.closed, 1) == 1 {
		atomic.AddInt64(&it.l.OpenIters, -1)
	}
	return nil
}

func (it *llIter) Next() error {
	if it.pos < len(it.keys) {
		it.pos++
	}
	if it.pos >= len(it.keys) {
		return moss.ErrIteratorDone
	}
	return nil
}

func (it *llIter) SeekTo(k []byte) error {
	it.pos = sort.Search(len(it.keys), func(i int) bool { return bytes.Compare(it.keys[i], k) >= 0 })
	if it.pos >= len(it.keys) {
		return moss.ErrIteratorDone
	}
	return nil
}

func (it *llIter) Current() ([]byte, []byte, error) {
	if it.pos >= len(it.keys) {
		return nil, nil, moss.ErrIteratorDone
	}
	return it.keys[it.pos], it.vals[it.pos], nil
}

func (it *llIter) CurrentEx() (moss.EntryEx, []byte, []byte, error) {
	if it.pos >= len(it.keys) {
		return moss.EntryEx{}, nil, nil, moss.ErrIteratorDone
	}
	return moss.EntryEx{Operation: moss.OperationSet}, it.keys[it.pos], it.vals[it.pos], nil
}

// applyHigher folds one `higher` snapshot into a copy of node by the
// documented protocol and returns the new node plus a rendering of the
// entries that were offered.
func applyHigher(higher moss.Snapshot, prev *Node, offer *bytes.Buffer, path string) (*Node, error) {
	out := NewNode()
	if prev != nil {
		for k, v := range prev.KV {
			out.KV[k] = v
		}
	}
	it, err := higher.StartIterator(nil, nil, moss.IteratorOptions{IncludeDeletions: true, SkipLowerLevel: true})
	if err != nil {
		return nil, err
	}
	if it == nil {
		return nil, fmt.Errorf("nil iterator from higher")
	}
	for {
		ex, k, v, err := it.CurrentEx()
		if err == moss.ErrIteratorDone {
			break
		}
		if err != nil {
			it.Close()
			return nil, err
		}
		switch ex.Operation {
		case moss.OperationSet:
			fmt.Fprintf(offer, "%sS(%s,%s);", path, offerq(k), offerq(v))
			out.KV[string(k)] = append([]byte{}, v...)
		case moss.OperationDel:
			fmt.Fprintf(offer, "%sD(%s);", path, offerq(k))
			delete(out.KV, string(k))
		case moss.OperationMerge:
			fmt.Fprintf(offer, "%sM(%s,%s);", path, offerq(k), offerq(v))
			mv, err := higher.Get(k, moss.ReadOptions{})
			if err != nil {
				it.Close()
				return nil, err
			}
			if mv == nil {
				delete(out.KV, string(k))
			} else {
				out.KV[string(k)] = append([]byte{}, mv...)
			}
		default:
			it.Close()
			return nil, fmt.Errorf("unknown operation %x for key %q", ex.Operation, k)
		}
		err = it.Next()
		if err == moss.ErrIteratorDone {
			break
		}
		if err != nil {
			it.Close()
			return nil, err
		}
	}
	it.Close()
	names, err := higher.ChildCollectionNames()
	if err != nil {
		return nil, err
	}
	sort.Strings(names)
	for _, name := range names {
		cs, err := higher.ChildCollectionSnapshot(name)
		if err != nil {
			return nil, err
		}
		if cs == nil {
			continue
		}
		var pc *Node
		if prev != nil {
			pc = prev.Children[name]
		}
		nc, err := applyHigher(cs, pc, offer, path+"<"+name+">")
		cs.Close()
		if err != nil {
			return nil, err
		}
		out.Children[name] = nc
	}
	return out, nil
}

// Update is the LowerLevelUpdate body (without gating).
func (l *LowLevel) Update(higher moss.Snapshot) (moss.Snapshot, error) {
	l.mu.Lock()
	call := l.calls
	l.calls++
	fail := call < len(l.FailPlan) && l.FailPlan[call]
	prev := l.root
	l.mu.Unlock()
	if l.Slow != nil {
		l.Slow()
	}
	var offer bytes.Buffer
	next, err := applyHigher(higher, prev, &offer, "")
	if err != nil {
		l.mu.Lock()
		l.ProtocolErrors = append(l.ProtocolErrors, err.Error())
		l.mu.Unlock()
		return nil, err
	}
	l.mu.Lock()
	l.Offers = append(l.Offers, offer.String())
	l.OfferFailed = append(l.OfferFailed, fail)
	if fail {
		l.Fails++
		l.mu.Unlock()
		return nil, ErrInjected
	}
	l.root = next
	l.Roots = append(l.Roots, next)
	l.Updates++
	l.mu.Unlock()
	return l.Snapshot(), nil
}

func (e *Env) llUpdate(higher moss.Snapshot) (moss.Snapshot, error) {
	if atomic.CompareAndSwapInt32(&e.llArmed, 1, 0) {
		e.llGate.Enter("ll")
	}
	return e.LL.Update(higher)
}

// offerq renders a byte string exactly when short, by length and hash when long.
func offerq(b []byte) string {
	if len(b) <= 64 {
		return fmt.Sprintf("%q", b)
	}
	h := fnv.New64a()
	h.Write(b)
	return fmt.Sprintf("[%d bytes #%x]", len(b), h.Sum64())
}
