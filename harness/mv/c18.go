package mv

import (
	"bytes"
	"crypto/sha256"
	"encoding/hex"
	"encoding/json"
	"fmt"
	"os"
	"path/filepath"
	"sort"
	"strings"
	"time"

	"github.com/couchbase/moss"
)

// C18Extra: how the directory is tampered with and what runs against the
// read-only store.
type C18Extra struct {
	EarlyClose bool     `json:"earlyClose,omitempty"` // close the writer without draining
	Tamper     []string `json:"tamper,omitempty"`
	TearBytes  int      `json:"tearBytes,omitempty"`
	TruncFrac  int      `json:"truncFrac,omitempty"` // percent
	RO         []Op     `json:"ro,omitempty"`
	ROCfg      Config   `json:"roCfg"`
}

type dirEntry struct {
	Name string
	Size int64
	Mode os.FileMode
	Sum  string
}

func listDirHashed(dir string) ([]dirEntry, error) {
	ents, err := os.ReadDir(dir)
	if err != nil {
		return nil, err
	}
	var out []dirEntry
	for _, e := range ents {
		fi, err := e.Info()
		if err != nil {
			return nil, err
		}
		d := dirEntry{Name: e.Name(), Size: fi.Size(), Mode: fi.Mode()}
		if !fi.IsDir() {
			b, err := os.ReadFile(filepath.Join(dir, e.Name()))
			if err != nil {
				return nil, err
			}
			s := sha256.Sum256(b)
			d.Sum = hex.EncodeToString(s[:8])
		}
		out = append(out, d)
	}
	sort.Slice(out, func(i, j int) bool { return out[i].Name < out[j].Name })
	return out, nil
}

func diffListing(a, b []dirEntry) string {
	am := map[string]dirEntry{}
	for _, e := range a {
		am[e.Name] = e
	}
	for _, e := range b {
		o, ok := am[e.Name]
		if !ok {
			return fmt.Sprintf("file %s was created", e.Name)
		}
		if o != e {
			return fmt.Sprintf("file %s changed: before %+v after %+v", e.Name, o, e)
		}
		delete(am, e.Name)
	}
	for n := range am {
		return fmt.Sprintf("file %s was deleted", n)
	}
	return ""
}

type c18Result struct {
	labels     map[string]int
	nontrivial bool
}

// RunC18 executes one C18 program.
func RunC18(t TB, p *Program) *c18Result {
	journal(p)
	var x C18Extra
	if err := json.Unmarshal(p.Extra, &x); err != nil {
		t.Fatalf("bad C18 extra: %v", err)
	}
	res := &c18Result{labels: map[string]int{}}
	e := NewEnv(t, p)
	defer e.Cleanup()
	// 1. a writer produces the directory
	e.Open()
	for _, op := range p.Ops {
		switch op.Kind {
		case "batch":
			e.Exec(op.B)
		case "mstep":
			e.MergerStep(op.MKind)
			e.settlePersister()
		}
	}
	if !x.EarlyClose {
		e.Drain()
	}
	e.CloseAll()
	e.Coll, e.Store = nil, nil
	waitDirSettled(e.Dir, 300*time.Millisecond)
	// 2. tamper
	files := dataFiles(e.Dir)
	newest := ""
	var maxSeq int64
	if len(files) > 0 {
		newest = files[len(files)-1]
		maxSeq, _ = moss.ParseFNameSeq(newest)
	}
	next := func() string { maxSeq++; return filepath.Join(e.Dir, moss.FormatFName(maxSeq)) }
	for _, tk := range x.Tamper {
		switch tk {
		case "junk-empty-newer":
			os.WriteFile(next(), nil, 0600)
		case "junk-garbage-newer":
			os.WriteFile(next(), bytes.Repeat([]byte("garbage!"), 700), 0600)
		case "junk-header-only-newer":
			if newest != "" {
				b, _ := os.ReadFile(filepath.Join(e.Dir, newest))
				if len(b) >= 4096 {
					os.WriteFile(next(), b[:4096], 0600)
				}
			}
		case "truncated-copy-newer":
			if newest != "" {
				b, _ := os.ReadFile(filepath.Join(e.Dir, newest))
				n := len(b) * x.TruncFrac / 100
				os.WriteFile(next(), b[:n], 0600)
			}
		case "tear-newest":
			if newest != "" {
				fi, err := os.Stat(filepath.Join(e.Dir, newest))
				if err == nil && fi.Size() > int64(x.TearBytes) {
					os.Truncate(filepath.Join(e.Dir, newest), fi.Size()-int64(x.TearBytes))
				}
			}
		case "unrelated-file":
			os.WriteFile(filepath.Join(e.Dir, "notes.txt"), []byte("unrelated"), 0644)
		case "old-named-junk":
			os.WriteFile(filepath.Join(e.Dir, "data-0000000000000000.moss"), []byte("old junk"), 0600)
		}
		res.labels["tamper:"+tk]++
	}
	before, err := listDirHashed(e.Dir)
	if err != nil {
		t.Fatalf("listing: %v", err)
	}
	nData := len(dataFiles(e.Dir))
	// 3. reference: what a normal open of a copy serves
	var ref *Node
	cp := e.Dir + ".ref"
	os.RemoveAll(cp)
	if err := copyDir(e.Dir, cp); err != nil {
		t.Fatalf("copyDir: %v", err)
	}
	func() {
		defer os.RemoveAll(cp)
		so := moss.StoreOptions{}
		so.CollectionOptions.MergeOperator = &verifMergeOp{}
		s, c, err := moss.OpenStoreCollection(cp, so, moss.StorePersistOptions{})
		if err != nil {
			res.labels["normal-open-fails"]++
			return
		}
		defer s.Close()
		defer c.Close()
		snap, err := c.Snapshot()
		if err != nil {
			return
		}
		defer snap.Close()
		ref, _ = ReadTree(snap)
	}()
	fail := func(format string, args ...interface{}) {
		msg := fmt.Sprintf(format, args...)
		recordFailure(p, msg)
		t.Logf("program: %s extra=%s", p.Compact(), string(p.Extra))
		t.Fatalf("%s", msg)
	}
	// 4. read-only open through a recording file layer
	fs := NewFS(e.Dir)
	fs.Record(false)
	ro := x.ROCfg
	so, po := ro.storeOptions(e)
	so.CollectionOptions.ReadOnly = true
	so.CollectionOptions.MergeOperator = &verifMergeOp{}
	so.OpenFile = fs.OpenFile
	store, coll, err := moss.OpenStoreCollection(e.Dir, so, po)
	checkDir := func(when string) {
		// unlinks are synchronous in openStore; removeFileOnClose is async
		time.Sleep(200 * time.Microsecond)
		after, err := listDirHashed(e.Dir)
		if err != nil {
			fail("listing: %v", err)
		}
		if d := diffListing(before, after); d != "" {
			fail("%s: a ReadOnly store changed its directory: %s", when, d)
		}
		fs.mu.Lock()
		mut, kinds := fs.Mutating, fmt.Sprint(fs.MutKinds)
		fs.mu.Unlock()
		if mut > 0 {
			fail("%s: a ReadOnly store issued %d mutating file operation(s): %s", when, mut, kinds)
		}
	}
	if err != nil {
		checkDir("after a failed ReadOnly open")
		if ref != nil {
			fail("ReadOnly open fails (%v) although a normal open of the same directory succeeds [%s]", err, dirListing(e.Dir))
		}
		res.labels["readonly-open-fails-too"]++
		return res
	}
	closedC, closedS := false, false
	defer func() {
		if !closedC {
			coll.Close()
		}
		if !closedS {
			store.Close()
		}
	}()
	checkDir("right after the ReadOnly open")
	if ref == nil {
		fail("ReadOnly open succeeds although a normal open of a copy of the directory fails [%s]", dirListing(e.Dir))
	}
	model := ref.Clone()
	roOpts := ReadOpts{Probes: e.universe, ChildPool: childPool}
	compare := func(when string, snap moss.Snapshot, want *Node) {
		if d := CompareSnapshot(snap, want, roOpts, "readonly"); d != "" {
			fail("%s: the ReadOnly store/collection does not serve the persisted content: %s", when, d)
		}
	}
	batches := 0
	notifies := 0
	maxTop := ro.MaxPreMergerBatches
	if maxTop <= 0 {
		maxTop = moss.DefaultCollectionOptions.MaxPreMergerBatches
	}
	for i, op := range x.RO {
		when := fmt.Sprintf("ro op %d %s", i, op.Kind)
		switch op.Kind {
		case "read":
			if closedC {
				continue
			}
			snap, err := coll.Snapshot()
			if err != nil {
				fail("%s: Snapshot: %v", when, err)
			}
			compare(when, snap, model)
			snap.Close()
		case "sread":
			if closedS {
				continue
			}
			snap, err := store.Snapshot()
			if err != nil || snap == nil {
				fail("%s: Store.Snapshot: %v", when, err)
			}
			compare(when, snap, ref)
			snap.Close()
		case "batch":
			if closedC || batches >= maxTop {
				continue
			}
			mb, err := e.buildBatch(coll, op.B)
			if err != nil {
				fail("%s: %v", when, err)
			}
			done := make(chan error, 1)
			go func() { done <- coll.ExecuteBatch(mb, moss.WriteOptions{}) }()
			select {
			case err = <-done:
			case <-time.After(StallTimeout):
				fail("%s: ExecuteBatch on a ReadOnly collection did not return", when)
			}
			if err != nil {
				fail("%s: ExecuteBatch: %v", when, err)
			}
			mb.Close()
			if !batchIsNoop(op.B) {
				batches++
			}
			model.Apply(op.B)
			res.labels["ro-batch"]++
		case "notify":
			if closedC || notifies >= 8 {
				continue
			}
			notifies++
			if n, ok := coll.(notifier); ok {
				n.NotifyMerger(op.MKind, false)
			}
		case "persist":
			if closedS {
				continue
			}
			s2, err := store.Persist(nil, moss.StorePersistOptions{CompactionConcern: moss.CompactionConcern(op.N % 3)})
			if err != nil {
				fail("%s: Store.Persist on a ReadOnly store: %v", when, err)
			}
			if s2 != nil {
				s2.Close()
			}
		case "prev":
			if closedS {
				continue
			}
			cur, err := store.Snapshot()
			if err != nil || cur == nil {
				continue
			}
			for k := 0; k < 3 && cur != nil; k++ {
				prev, err := store.SnapshotPrevious(cur)
				cur.Close()
				if err != nil {
					fail("%s: SnapshotPrevious: %v", when, err)
				}
				cur = prev
			}
			if cur != nil {
				cur.Close()
			}
		case "closecoll":
			if !closedC {
				coll.Close()
				closedC = true
			}
		case "closestore":
			if closedC && !closedS {
				store.Close()
				closedS = true
			}
		}
		checkDir(when)
	}
	if !closedC {
		coll.Close()
		closedC = true
	}
	if !closedS {
		store.Close()
		closedS = true
	}
	time.Sleep(time.Millisecond)
	checkDir("after closing the ReadOnly collection and store")
	incomplete := false
	for _, tk := range x.Tamper {
		if strings.HasSuffix(tk, "-newer") || tk == "tear-newest" {
			incomplete = true
		}
	}
	res.nontrivial = (nData >= 2 || incomplete) && batches > 0
	if nData >= 2 {
		res.labels["several-data-files"]++
	}
	return res
}
