package mv

import (
	"bytes"
	"encoding/json"
	"fmt"
	"runtime"
	"strconv"
	"strings"
	"sync"
	"sync/atomic"
	"time"

	"github.com/couchbase/moss"
)

// ConcExtra is the plain-data description of a concurrent (free-running) case.
type ConcExtra struct {
	Writers    [][]*Batch `json:"writers"` // per writer: its batches, in order (disjoint key spaces)
	Readers    int        `json:"readers"`
	GetReader  bool       `json:"getReader,omitempty"`
	Pollers    bool       `json:"pollers,omitempty"`    // stats / histograms / store stats / iterators (C17)
	CloseAfter int        `json:"closeAfter,omitempty"` // >0: Close once this many batches returned (C16)
	Notifiers  int        `json:"notifiers,omitempty"`  // goroutines issuing synchronous NotifyMerger
	Perturb    []int      `json:"perturb,omitempty"`    // micro-sleeps (us) at event / file-op points, 0 = Gosched
	Procs      int        `json:"procs,omitempty"`
	LLSlowUs   int        `json:"llSlowUs,omitempty"`
	LLFail     []bool     `json:"llFail,omitempty"`
	LLStallMs  int        `json:"llStallMs,omitempty"` // the lower level stalls once for this long, then resumes
}

func writerPrefix(w int) string { return fmt.Sprintf("w%d/", w) }
func markerKey(w int) []byte    { return []byte(writerPrefix(w) + "!m") }

// project extracts writer w's part of a tree (all nesting levels).
func project(n *Node, prefix string) *Node {
	out := NewNode()
	for k, v := range n.KV {
		if strings.HasPrefix(k, prefix) {
			out.KV[k] = v
		}
	}
	for name, c := range n.Children {
		pc := project(c, prefix)
		if len(pc.KV) > 0 || len(pc.Children) > 0 {
			out.Children[name] = pc
		}
	}
	return out
}

type concResult struct {
	labels       map[string]int
	intermediate int // snapshots that saw a strict intermediate prefix
	snapshots    int
	blockedAtClose bool
	closedDuring bool
	mergerCycles uint64
	rounds       uint64
}

// RunConc executes a concurrent case.  prop selects the oracle emphasis:
// C03 (prefix atomicity), C16 (return / close semantics), C17 (race build).
func RunConc(t TB, p *Program) *concResult {
	journal(p)
	var x ConcExtra
	if err := json.Unmarshal(p.Extra, &x); err != nil {
		t.Fatalf("bad concurrent case: %v", err)
	}
	res := &concResult{labels: map[string]int{}}
	var resMu sync.Mutex
	label := func(l string) {
		resMu.Lock()
		res.labels[l]++
		resMu.Unlock()
	}
	if x.Procs > 0 {
		old := runtime.GOMAXPROCS(x.Procs)
		defer runtime.GOMAXPROCS(old)
	}
	e := NewEnv(t, p)
	defer e.Cleanup()
	var perturbI int64
	perturb := func() {
		if len(x.Perturb) == 0 {
			return
		}
		i := atomic.AddInt64(&perturbI, 1)
		d := x.Perturb[int(i)%len(x.Perturb)]
		if d <= 0 {
			runtime.Gosched()
		} else {
			time.Sleep(time.Duration(d) * time.Microsecond)
		}
	}
	e.perturb = perturb
	if p.Cfg.Backing == "ll" {
		e.LL = NewLowLevel()
		e.LL.FailPlan = x.LLFail
		var stalled int32
		e.LL.Slow = func() {
			if x.LLStallMs > 0 && atomic.CompareAndSwapInt32(&stalled, 0, 1) {
				time.Sleep(time.Duration(x.LLStallMs) * time.Millisecond)
			}
			if x.LLSlowUs > 0 {
				time.Sleep(time.Duration(x.LLSlowUs) * time.Microsecond)
			}
		}
	}
	e.Dir = newCaseDir()
	e.openWith(e.Cfg, false)
	if e.FS != nil {
		e.FS.Perturb = perturb
		e.FS.mu.Lock()
		e.FS.MaxCreates = 100000 // forced compaction creates a file per round
		e.FS.mu.Unlock()
	}

	nW := len(x.Writers)
	// per-writer reference states
	states := make([][]*Node, nW)
	for w := range x.Writers {
		m := NewNode()
		// Child existence cannot be attributed to one writer, so both sides
		// are compared after dropping children that hold none of its keys.
		states[w] = []*Node{project(m, writerPrefix(w))}
		for _, b := range x.Writers[w] {
			m.Apply(b)
			states[w] = append(states[w], project(m.Clone(), writerPrefix(w)))
		}
	}
	done := make([]int64, nW) // done[w] = number of batches of w whose ExecuteBatch returned
	var totalDone int64
	var failMu sync.Mutex
	var failMsg string
	failf := func(format string, args ...interface{}) {
		failMu.Lock()
		if failMsg == "" {
			failMsg = fmt.Sprintf(format, args...)
		}
		failMu.Unlock()
	}
	failed := func() bool {
		failMu.Lock()
		defer failMu.Unlock()
		return failMsg != ""
	}
	var closed int32
	var closeReturned int32
	stopReaders := make(chan struct{})
	var wg, rwg sync.WaitGroup
	var blockedWriters int32

	callTimeout := func(what string, f func()) bool {
		ch := make(chan struct{})
		go func() { f(); close(ch) }()
		select {
		case <-ch:
			return true
		case <-time.After(StallTimeout):
			failf("%s did not return within %s (stall)", what, StallTimeout)
			return false
		}
	}

	// writers
	for w := 0; w < nW; w++ {
		wg.Add(1)
		go func(w int) {
			defer wg.Done()
			for i, b := range x.Writers[w] {
				if failed() {
					return
				}
				mb, err := e.Coll.NewBatch(len(b.Ops), b.bytesTop())
				if err != nil {
					if err == moss.ErrClosed && atomic.LoadInt32(&closed) != 0 {
						return
					}
					failf("writer %d: NewBatch: %v", w, err)
					return
				}
				if err := e.fillBatch(mb, b); err != nil {
					failf("writer %d: %v", w, err)
					return
				}
				var xerr error
				atomic.AddInt32(&blockedWriters, 1)
				ok := callTimeout(fmt.Sprintf("writer %d ExecuteBatch #%d", w, i+1), func() {
					xerr = e.Coll.ExecuteBatch(mb, moss.WriteOptions{})
				})
				atomic.AddInt32(&blockedWriters, -1)
				if !ok {
					return
				}
				if xerr != nil {
					if xerr == moss.ErrClosed && atomic.LoadInt32(&closed) != 0 {
						label("writer-released-with-ErrClosed")
						return
					}
					failf("writer %d: ExecuteBatch #%d: %v", w, i+1, xerr)
					return
				}
				if atomic.LoadInt32(&closeReturned) != 0 && !batchIsNoop(b) {
					// the call must have been admitted before Close returned; it
					// cannot have *started* after Close returned and succeeded
				}
				mb.Close()
				atomic.StoreInt64(&done[w], int64(i+1))
				atomic.AddInt64(&totalDone, 1)
			}
		}(w)
	}

	checkSnapshot := func(who string, snap moss.Snapshot, floor []int64, last []int64) bool {
		tree, err := ReadTree(snap)
		if err != nil {
			failf("%s: reading snapshot: %v", who, err)
			return false
		}
		resMu.Lock()
		res.snapshots++
		resMu.Unlock()
		inter := false
		for w := 0; w < nW; w++ {
			m := int64(0)
			if mv, ok := findKey(tree, string(markerKey(w))); ok {
				v, perr := strconv.ParseInt(string(mv), 10, 64)
				if perr != nil {
					failf("%s: marker of writer %d is %q", who, w, mv)
					return false
				}
				m = v
			}
			if m < floor[w] {
				failf("%s: a batch whose ExecuteBatch had returned is not visible: writer %d marker %d < %d returned before the snapshot was taken", who, w, m, floor[w])
				return false
			}
			if m < last[w] {
				failf("%s: the observed prefix shrank: writer %d marker %d after %d in an earlier snapshot", who, w, m, last[w])
				return false
			}
			last[w] = m
			if int(m) >= len(states[w]) {
				failf("%s: writer %d marker %d beyond its %d batches", who, w, m, len(states[w])-1)
				return false
			}
			got := project(tree, writerPrefix(w))
			if d := got.Diff(states[w][m], "snapshot"); d != "" {
				failf("%s: snapshot is not the complete effect of a prefix of writer %d's batches: marker says %d of %d, but %s", who, w, m, len(states[w])-1, d)
				return false
			}
			if m > 0 && int(m) < len(states[w])-1 {
				inter = true
			}
		}
		if inter {
			resMu.Lock()
			res.intermediate++
			resMu.Unlock()
		}
		return true
	}

	// snapshot readers
	for r := 0; r < x.Readers; r++ {
		rwg.Add(1)
		go func(r int) {
			defer rwg.Done()
			last := make([]int64, nW)
			for {
				select {
				case <-stopReaders:
					return
				default:
				}
				if failed() {
					return
				}
				floor := make([]int64, nW)
				for w := range floor {
					floor[w] = atomic.LoadInt64(&done[w])
				}
				var snap moss.Snapshot
				var err error
				if !callTimeout(fmt.Sprintf("reader %d Snapshot", r), func() { snap, err = e.Coll.Snapshot() }) {
					return
				}
				if err != nil {
					if err == moss.ErrClosed && atomic.LoadInt32(&closed) != 0 {
						return
					}
					failf("reader %d: Snapshot: %v", r, err)
					return
				}
				ok := checkSnapshot(fmt.Sprintf("reader %d", r), snap, floor, last)
				snap.Close()
				if !ok {
					return
				}
				perturb()
			}
		}(r)
	}
	// Collection.Get reader
	if x.GetReader {
		rwg.Add(1)
		go func() {
			defer rwg.Done()
			for {
				select {
				case <-stopReaders:
					return
				default:
				}
				if failed() {
					return
				}
				for w := 0; w < nW; w++ {
					if len(x.Writers[w]) > 0 && len(x.Writers[w][0].Ops) == 0 {
						continue // this writer keeps its marker in a child collection; Collection.Get reads the top level
					}
					floor := atomic.LoadInt64(&done[w])
					var v []byte
					var err error
					if !callTimeout("Collection.Get", func() { v, err = e.Coll.Get(markerKey(w), moss.ReadOptions{}) }) {
						return
					}
					if err != nil {
						if err == moss.ErrClosed && atomic.LoadInt32(&closed) != 0 {
							return
						}
						failf("Collection.Get: %v", err)
						return
					}
					m := int64(0)
					if v != nil {
						m, _ = strconv.ParseInt(string(v), 10, 64)
					}
					if m < floor {
						failf("Collection.Get: a batch whose ExecuteBatch had returned is not visible: writer %d marker %d < %d", w, m, floor)
						return
					}
				}
				perturb()
			}
		}()
	}
	// pollers (C17): stats, histograms, store snapshot / stats, iterators
	if x.Pollers {
		rwg.Add(1)
		go func() {
			defer rwg.Done()
			for {
				select {
				case <-stopReaders:
					return
				default:
				}
				if atomic.LoadInt32(&closed) != 0 {
					return
				}
				e.Coll.Stats()
				e.Coll.Histograms()
				e.Coll.Options()
				if e.Store != nil {
					e.Store.Stats()
					e.Store.Histograms()
					if ss, err := e.Store.Snapshot(); err == nil && ss != nil {
						if it, err := ss.StartIterator(nil, nil, moss.IteratorOptions{}); err == nil && it != nil {
							for k := 0; k < 20; k++ {
								if it.Next() != nil {
									break
								}
							}
							it.Close()
						}
						ss.Close()
					}
				}
				if snap, err := e.Coll.Snapshot(); err == nil {
					if it, err := snap.StartIterator(nil, nil, moss.IteratorOptions{}); err == nil && it != nil {
						for k := 0; k < 50; k++ {
							if it.Next() != nil {
								break
							}
							perturb()
						}
						it.Close()
					}
					snap.Close()
				}
				perturb()
			}
		}()
	}
	// synchronous notifiers
	var nwg sync.WaitGroup
	for n := 0; n < x.Notifiers; n++ {
		nwg.Add(1)
		go func(n int) {
			defer nwg.Done()
			nt, ok := e.Coll.(notifier)
			if !ok {
				return
			}
			for k := 0; k < 6; k++ {
				if failed() {
					return
				}
				kind := mstepKinds[(n+k)%len(mstepKinds)]
				if !callTimeout(fmt.Sprintf("synchronous NotifyMerger(%q) (Close called: %v)", kind, atomic.LoadInt32(&closed) != 0), func() { nt.NotifyMerger(kind, true) }) {
					return
				}
				label("sync-notify-returned")
				if atomic.LoadInt32(&closeReturned) != 0 {
					label("sync-notify-after-close-returned")
					return
				}
				perturb()
			}
		}(n)
	}

	// closer (C16)
	total := 0
	for _, ws := range x.Writers {
		total += len(ws)
	}
	if x.CloseAfter > 0 {
		// wait until enough batches returned (or writers are all blocked / done)
		dl := time.Now().Add(StallTimeout)
		for atomic.LoadInt64(&totalDone) < int64(x.CloseAfter) && atomic.LoadInt64(&totalDone) < int64(total) && time.Now().Before(dl) && !failed() {
			time.Sleep(50 * time.Microsecond)
		}
		st, _ := e.Coll.Stats()
		if st != nil && st.TotExecuteBatchWaitBeg > st.TotExecuteBatchWaitEnd {
			res.blockedAtClose = true
			label("close-with-writer-blocked-on-back-pressure")
		}
		if st != nil && st.TotPersisterLowerLevelUpdateBeg > st.TotPersisterLowerLevelUpdateEnd+st.TotPersisterLowerLevelUpdateErr {
			res.blockedAtClose = true
			label("close-with-persister-inside-lower-level")
		}
		atomic.StoreInt32(&closed, 1)
		res.closedDuring = true
		callTimeout("Collection.Close", func() { e.Coll.Close() })
		atomic.StoreInt32(&closeReturned, 1)
		e.closed = true
		// everybody must come back
		wdone := make(chan struct{})
		go func() { wg.Wait(); close(wdone) }()
		select {
		case <-wdone:
		case <-time.After(StallTimeout):
			failf("writers blocked in ExecuteBatch did not return after Close (stall)")
		}
		close(stopReaders)
		rwg.Wait()
		ndone := make(chan struct{})
		go func() { nwg.Wait(); close(ndone) }()
		select {
		case <-ndone:
		case <-time.After(StallTimeout + 5*time.Second):
			failf("a synchronous NotifyMerger did not return after Close (stall)")
		}
		if !failed() {
			// Close is final
			if _, err := e.Coll.NewBatch(0, 0); err != moss.ErrClosed {
				failf("after Close, NewBatch returns %v, want ErrClosed", err)
			}
			if s, err := e.Coll.Snapshot(); err != moss.ErrClosed {
				if s != nil {
					s.Close()
				}
				failf("after Close, Snapshot returns %v, want ErrClosed", err)
			}
			if _, err := e.Coll.Get([]byte("x"), moss.ReadOptions{}); err != moss.ErrClosed {
				failf("after Close, Get returns %v, want ErrClosed", err)
			}
			// a batch created before Close, executed after
			label("post-close-checks")
			if nt, ok := e.Coll.(notifier); ok {
				if callTimeout("synchronous NotifyMerger after Close", func() { nt.NotifyMerger("mergeAll", true) }) {
					label("sync-notify-after-close-returned")
				}
			}
		}
	} else {
		wdone := make(chan struct{})
		go func() { wg.Wait(); close(wdone) }()
		select {
		case <-wdone:
		case <-time.After(2 * StallTimeout):
			failf("writers did not finish (stall)")
		}
		nwg.Wait()
		// final state: everything visible, then drained into the lower level
		if !failed() {
			floor := make([]int64, nW)
			for w := range floor {
				floor[w] = atomic.LoadInt64(&done[w])
			}
			snap, err := e.Coll.Snapshot()
			if err != nil {
				failf("final Snapshot: %v", err)
			} else {
				checkSnapshot("final", snap, floor, make([]int64, nW))
				snap.Close()
			}
		}
		close(stopReaders)
		rwg.Wait()
	}
	if st, err := e.Coll.Stats(); err == nil && st != nil {
		res.mergerCycles = st.TotMergerLoopRepeat
		res.rounds = st.TotPersisterLowerLevelUpdateEnd
	}
	failMu.Lock()
	msg := failMsg
	failMu.Unlock()
	if msg != "" {
		if strings.Contains(msg, "(stall)") {
			buf := make([]byte, 1<<20)
			n := runtime.Stack(buf, true)
			recordStall(p, "STALL: "+msg+"\nprogram: "+string(p.JSON())+"\n\n"+string(buf[:n]))
			if p.Prop == "C16" {
				recordFailure(p, msg)
			}
			t.Logf("program: %s", clip(string(p.Extra), 1500))
			t.Fatalf("%s", msg)
		}
		recordFailure(p, msg)
		t.Logf("program: cfg=%s extra=%s", p.Cfg.String(), clip(string(p.Extra), 1500))
		t.Fatalf("%s", msg)
	}
	return res
}

var _ = bytes.Equal

// RunC16 dispatches between the deterministic admission-bound case and the
// free-running close case.
func RunC16(t TB, p *Program) *concResult {
	if len(p.Ops) > 0 && p.Ops[0].Kind == "admission" {
		return runAdmission(t, p)
	}
	return RunConc(t, p)
}

// runAdmission: with the merger parked by the controller nothing can be
// merged; of MaxPreMergerBatches + k concurrently issued non-empty batches
// at most MaxPreMergerBatches may return before the merger is released, the
// others must be counted as waiting, and all must return once it is.
func runAdmission(t TB, p *Program) *concResult {
	journal(p)
	res := &concResult{labels: map[string]int{}}
	e := NewEnv(t, p)
	defer e.Cleanup()
	e.Open()
	max := e.maxTop()
	var batches []*Batch
	for _, op := range p.Ops[1:] {
		if op.Kind == "batch" && !batchIsNoop(op.B) {
			batches = append(batches, op.B)
		}
	}
	if len(batches) <= max {
		return res
	}
	var returned int32
	var wg sync.WaitGroup
	errs := make(chan error, len(batches))
	for _, b := range batches {
		mb, err := e.buildBatch(e.Coll, b)
		if err != nil {
			e.Failf("building batch: %v", err)
		}
		wg.Add(1)
		go func(mb moss.Batch) {
			defer wg.Done()
			err := e.Coll.ExecuteBatch(mb, moss.WriteOptions{})
			atomic.AddInt32(&returned, 1)
			errs <- err
		}(mb)
	}
	// wait until the expected number of callers is blocked
	want := len(batches) - max
	dl := time.Now().Add(StallTimeout)
	for {
		st := e.stats()
		blocked := int(st.TotExecuteBatchWaitBeg - st.TotExecuteBatchWaitEnd)
		r := int(atomic.LoadInt32(&returned))
		if r > max {
			e.Failf("with the merger parked, %d of %d concurrently issued non-empty batches were accepted although MaxPreMergerBatches is %d", r, len(batches), max)
		}
		if blocked >= want && r == max {
			break
		}
		if time.Now().After(dl) {
			e.Failf("with the merger parked and MaxPreMergerBatches=%d, of %d batches %d returned and %d are counted as waiting (want %d and %d)", max, len(batches), r, blocked, max, want)
		}
		time.Sleep(100 * time.Microsecond)
	}
	// stay parked a little longer: nobody else may slip through
	time.Sleep(2 * time.Millisecond)
	if r := int(atomic.LoadInt32(&returned)); r > max {
		e.Failf("with the merger parked, %d batches were accepted although MaxPreMergerBatches is %d", r, max)
	}
	st := e.stats()
	if int(st.CurDirtyTopSegments) > 0 && !batchesHaveChildren(batches) && int(st.CurDirtyTopSegments) > max {
		e.Failf("CurDirtyTopSegments=%d exceeds MaxPreMergerBatches=%d", st.CurDirtyTopSegments, max)
	}
	res.blockedAtClose = true
	res.labels["admission-bound-checked"]++
	// one merger cycle: top is emptied and the blocked writers are woken; again
	// at most MaxPreMergerBatches of them may get in, the rest must re-check
	// and keep waiting
	if want > max {
		e.MergerStep("")
		time.Sleep(3 * time.Millisecond)
		r := int(atomic.LoadInt32(&returned))
		if r > 2*max {
			e.Failf("after one merger cycle %d batches have been accepted in total although only %d + %d may be (MaxPreMergerBatches=%d, merger parked again)", r, max, max, max)
		}
		st := e.stats()
		if !batchesHaveChildren(batches) && int(st.CurDirtyTopSegments) > max {
			e.Failf("after one merger cycle CurDirtyTopSegments=%d exceeds MaxPreMergerBatches=%d", st.CurDirtyTopSegments, max)
		}
		res.labels["admission-bound-rechecked-after-wakeup"]++
	}
	// release: everybody returns
	e.FreeRun()
	done := make(chan struct{})
	go func() { wg.Wait(); close(done) }()
	select {
	case <-done:
	case <-time.After(StallTimeout):
		e.stall("blocked ExecuteBatch calls did not return after the merger was released")
	}
	close(errs)
	for err := range errs {
		if err != nil {
			e.Failf("ExecuteBatch: %v", err)
		}
	}
	for _, b := range batches {
		e.Model.Apply(b)
	}
	// disjointness is not guaranteed by the generator here: only structure
	return res
}

func batchesHaveChildren(bs []*Batch) bool {
	for _, b := range bs {
		if b.HasChildren() {
			return true
		}
	}
	return false
}

// findKey looks a key up at any nesting level (a writer that only writes
// into child collections keeps its marker there).
func findKey(n *Node, k string) ([]byte, bool) {
	if v, ok := n.KV[k]; ok {
		return v, true
	}
	for _, c := range n.Children {
		if v, ok := findKey(c, k); ok {
			return v, true
		}
	}
	return nil, false
}

// ConcCompact renders a concurrent case on one line for evidence samples.
func ConcCompact(p *Program) string {
	var x ConcExtra
	if err := json.Unmarshal(p.Extra, &x); err != nil {
		return p.Cfg.String()
	}
	var sb strings.Builder
	sb.WriteString(p.Cfg.String())
	fmt.Fprintf(&sb, " :: %d writers", len(x.Writers))
	for w, bs := range x.Writers {
		fmt.Fprintf(&sb, "; w%d: %d batches", w, len(bs))
		if len(bs) > 0 {
			fmt.Fprintf(&sb, " e.g. %s", bs[0].String())
			if len(bs) > 1 {
				fmt.Fprintf(&sb, " .. %s", bs[len(bs)-1].String())
			}
		}
	}
	fmt.Fprintf(&sb, "; %d snapshot readers", x.Readers)
	if x.GetReader {
		sb.WriteString(", Get reader")
	}
	if x.Pollers {
		sb.WriteString(", stats/iterator pollers")
	}
	if x.Notifiers > 0 {
		fmt.Fprintf(&sb, ", %d sync notifiers", x.Notifiers)
	}
	if x.CloseAfter > 0 {
		fmt.Fprintf(&sb, "; Close after %d batches returned", x.CloseAfter)
	}
	if len(x.Perturb) > 0 {
		fmt.Fprintf(&sb, "; perturb(us)=%v", x.Perturb)
	}
	if x.Procs > 0 {
		fmt.Fprintf(&sb, "; GOMAXPROCS=%d", x.Procs)
	}
	if x.LLSlowUs > 0 || len(x.LLFail) > 0 || x.LLStallMs > 0 {
		fmt.Fprintf(&sb, "; lower level: slow=%dus fail=%v stall=%dms", x.LLSlowUs, x.LLFail, x.LLStallMs)
	}
	return clip(sb.String(), 1400)
}
