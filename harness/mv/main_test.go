package mv

import (
	"os"
	"testing"

	"pgregory.net/rapid"
)

func TestMain(m *testing.M) {
	code := m.Run()
	Col.Flush()
	os.RemoveAll(scratchRoot)
	os.Exit(code)
}

// histCheck is the common shape of the history-style property tests.
func histCheck(t *testing.T, spec *GenSpec, o Oracles, rule string, nontrivial func(h *Hist) bool) {
	Col.SetProp(spec.Prop, rule)
	rapid.Check(t, func(rt *rapid.T) {
		p, excluded := genHistory(rt, spec)
		h := RunHistory(rt, p, o)
		nt := h.Nontriv
		if nontrivial != nil {
			nt = nontrivial(h)
		}
		Col.Case(p.Hash(), p.Compact, nt, h.Labels, excluded)
	})
}

func TestC01(t *testing.T) {
	spec := &GenSpec{Prop: "C01", Backings: []string{"mem", "store", "store", "ll"}, MaxOps: 40,
		Holds: true, Reopen: true, BigBatches: true}
	histCheck(t, spec, Oracles{CollEveryStep: true},
		"rapid-generated program = config x history of {batch, merger cycle(plain|mergeAll|idle), hold persister at gate, release, drain+reopen}; after every op a fresh Collection.Snapshot is compared with the reference map (Get of every key of the universe + full iteration). Non-trivial: at some read moment a key's newest operation sits in a different section (top/mid/base/clean/lower level) than an older operation on the same key. Distinct = distinct program hash.",
		nil)
}

// TestReplay runs one saved program ($VERIF_REPLAY) without rapid.
func TestReplay(t *testing.T) {
	path := os.Getenv("VERIF_REPLAY")
	if path == "" {
		t.Skip("no VERIF_REPLAY")
	}
	rec, err := LoadFailRecord(path)
	if err != nil {
		t.Fatalf("load %s: %v", path, err)
	}
	replayProgram(t, rec.Program)
}

func TestGenDeterminism(t *testing.T) {
	spec := &GenSpec{Prop: "C01", Backings: []string{"mem", "store", "store", "ll"}, MaxOps: 40,
		Holds: true, Reopen: true, BigBatches: true}
	rapid.Check(t, func(rt *rapid.T) {
		p, _ := genHistory(rt, spec)
		t.Logf("PROG %s", p.Hash())
	})
}
