package mv

import (
	"bytes"
	"encoding/json"
	"fmt"
	"os"
	"testing"

	"pgregory.net/rapid"
)

func TestMain(m *testing.M) {
	code := m.Run()
	if relaxedKeyless > 0 {
		Col.AddExtra("comparisons_relaxed_by_open_finding_F14e", relaxedKeyless)
	}
	Col.Flush()
	os.RemoveAll(scratchRoot)
	os.Exit(code)
}

// histCheck is the common shape of the history-style property tests.
func histCheck(t *testing.T, spec *GenSpec, o Oracles, rule string, nontrivial func(h *Hist) bool) {
	Col.SetProp(spec.Prop, rule)
	rapid.Check(t, func(rt *rapid.T) {
		p, excluded := genHistory(rt, spec)
		h := RunHistory(rt, p, o)
		nt := h.Nontriv
		if nontrivial != nil {
			nt = nontrivial(h)
		}
		Col.Case(p.Hash(), p.Compact, nt, h.Labels, excluded)
	})
}

func TestC01(t *testing.T) {
	spec := &GenSpec{Prop: "C01", Backings: []string{"mem", "store", "store", "ll"}, MaxOps: 40,
		Holds: true, Reopen: true, BigBatches: true}
	histCheck(t, spec, oraclesFor[spec.Prop],
		"rapid-generated program = config x history of {batch, merger cycle(plain|mergeAll|idle), hold persister at gate, release, drain+reopen}; after every op a fresh Collection.Snapshot is compared with the reference map (Get of every key of the universe + full iteration). Non-trivial: at some read moment a key's newest operation sits in a different section (top/mid/base/clean/lower level) than an older operation on the same key. Distinct = distinct program hash.",
		nil)
}

// TestReplay runs one saved program ($VERIF_REPLAY) without rapid.
func TestReplay(t *testing.T) {
	path := os.Getenv("VERIF_REPLAY")
	if path == "" {
		t.Skip("no VERIF_REPLAY")
	}
	rec, err := LoadFailRecord(path)
	if err != nil {
		t.Fatalf("load %s: %v", path, err)
	}
	replayProgram(t, rec.Program)
}

func TestGenDeterminism(t *testing.T) {
	spec := &GenSpec{Prop: "C01", Backings: []string{"mem", "store", "store", "ll"}, MaxOps: 40,
		Holds: true, Reopen: true, BigBatches: true}
	rapid.Check(t, func(rt *rapid.T) {
		p, _ := genHistory(rt, spec)
		t.Logf("PROG %s", p.Hash())
	})
}

var allBackings = []string{"mem", "store", "store", "ll"}

func TestC02(t *testing.T) {
	spec := &GenSpec{Prop: "C02", Backings: []string{"mem", "store", "store", "store", "ll"}, MaxOps: 40,
		Holds: true, Snapshots: true, Iterators: true, StoreSnaps: true, BigBatches: true, CloseTail: true,
		Children: exclChildren("C02"), Compaction: []int{0, 1, 2, 2}}
	applyExclusions(spec)
	histCheck(t, spec, oraclesFor[spec.Prop],
		"programs of C01 plus {take collection/child/store snapshot, open iterator with bounds, step/seek iterator, re-read snapshot, close handle, close collection, close store}; the reference of a handle is its first complete read; every later re-read (Get of every key, full iteration, children recursively) and every iterator step must match it. Non-trivial: a snapshot re-read after a later batch changed the collection AND at least one of {merger cycle, persister round, full compaction, Collection.Close, Store.Close} happened in between. Distinct = distinct program hash.",
		nil)
}

func TestC10(t *testing.T) {
	spec := &GenSpec{Prop: "C10", Backings: allBackings, MaxOps: 30, Holds: true, Reopen: true, Merge: true}
	histCheck(t, spec, oraclesFor[spec.Prop],
		"C01/C08 programs (Set, Del, Merge; empty key and values); after every op, for every key of the universe: Collection.Get, Get on a fresh Snapshot (each with and without NoCopyValue) and the entry/absence in a full iteration must agree (value and nil-ness); copied values are re-compared after everything is closed. Non-trivial: some key's newest operation sits in a different section than an older operation on it. Distinct = distinct program hash.",
		nil)
}

func TestC08(t *testing.T) {
	spec := &GenSpec{Prop: "C08", Backings: allBackings, MaxOps: 40, Holds: true, Reopen: true, Merge: true,
		KeyPoolMax: 4, Children: exclChildren("C08"), ChildPct: 55, BigBatches: true, Compaction: []int{0, 1, 1, 2}}
	applyExclusions(spec)
	histCheck(t, spec, oraclesFor[spec.Prop],
		"histories over 1-4 keys with Set/Del/Merge under an order- and structure-sensitive operator ('(' existing '|' operand ')'), with merger cycles, held persister rounds, partial/full compaction, reopen, CachePersisted, application lower level; every read (snapshot Get + iteration after every op, store / lower-level content after every completed round, content after reopen) must equal the model fold. Non-trivial: a Merge operation and an older operation on the same key sit in different sections at a read moment. Distinct = distinct program hash.",
		func(h *Hist) bool { return h.Labels["merge-cross-section"] > 0 })
}

func TestC11(t *testing.T) {
	spec := &GenSpec{Prop: "C11", Backings: []string{"mem", "store", "store", "store"}, MaxOps: 30, Holds: true, Reopen: true,
		Children: true, ChildPct: 60}
	applyExclusions(spec)
	histCheck(t, spec, oraclesFor[spec.Prop],
		"histories over child names {A,B,C}, nesting <= 3: create by first mention (also with an empty child batch), write, delete, recreate, delete parent with grandchildren, child-only batches, same key at several levels; all controller steps, compaction concerns, reopen. After every op the collection (names as a set, nil snapshot for unknown names, full content of every child) equals the model tree; after every completed round the store does; after drain+reopen the reopened collection does. Non-trivial: a child is deleted or recreated while earlier data of it sits in another section or is already persisted, or a child-only batch is persisted as its own round. Distinct = distinct program hash.",
		func(h *Hist) bool { return h.Labels["child-del-cross-section"]+h.Labels["child-only-round"] > 0 })
}

func TestC20(t *testing.T) {
	spec := &GenSpec{Prop: "C20", Backings: []string{"store", "store", "ll"}, MaxOps: 30, Holds: true,
		Children: true, NoRecreate: true}
	applyExclusions(spec)
	histCheck(t, spec, oraclesFor[spec.Prop],
		"C01/C11 programs incl. child-only and delete-only batches, mossStore and application lower level, CachePersisted on/off; Stats() sampled after every op: whenever CurDirtyOps == CurDirtyBytes == CurDirtySegments == 0 the lower level's own snapshot must equal the full reference content (children included) and (up to 3 times per case) a copy of the directory must reopen to it; at the end, after <= 6 controller cycles without input, the gauges must be zero. Non-trivial: a zero sample with at least one batch executed since the previous zero sample. Distinct = distinct program hash.",
		nil)
}

func TestC04(t *testing.T) {
	spec := &GenSpec{Prop: "C04", Backings: []string{"store"}, MaxOps: 30, Holds: true, Reopen: true, EarlyClose: true,
		Children: exclChildren("C04"), ChildPct: 50, BigBatches: true, ReopenCfg: true}
	applyExclusions(spec)
	histCheck(t, spec, oraclesFor[spec.Prop],
		"store-backed histories with 1-4 close/reopen cycles; close point generated: caught-up (controller runs merger cycles and rounds until every batch is covered by a completed round - event-confirmed) or early (batches still in top/mid/base, persister held at a gate); options may change on reopen. Caught-up: reopened collection == full reference. Early: reopened content == reference after some prefix p >= the prefix covered by the last completed round, never a mixture. Non-trivial: a caught-up reopen after >= 2 completed rounds that carried batches, or an early close that really lost a suffix. Distinct = distinct program hash.",
		func(h *Hist) bool {
			return (h.Labels["reopen:caught-up"] > 0 && h.DataRounds >= 2) || h.Labels["reopen:early-lost-suffix"] > 0
		})
}

func TestC07(t *testing.T) {
	spec := &GenSpec{Prop: "C07", Backings: []string{"store"}, MaxOps: 40, Holds: true, Reopen: true,
		Children: exclChildren("C07"), BigBatches: true, BulkPct: 25, Compaction: []int{1, 1, 2, 0}, KeepFiles: true, PersistNil: !excluded("persist-nil")}
	applyExclusions(spec)
	histCheck(t, spec, oraclesFor[spec.Prop],
		"store-backed histories with overwrites, deletions, bulk batches spanning levels, all CompactionConcerns, small level parameters, CompactionPercentage extremes, 1-2 buffer pages, sync settings, idle-kind merger pings; after every op collection == reference and store == reference prefix (so content is identical before/after every compaction); after a full compaction (detected from Store.Stats deltas) iteration with IncludeDeletions shows no deletion marker, strictly ascending keys, and no entry above segment level 0 at any nesting level; after closing everything the directory holds one data file. Non-trivial: a compaction happened in the case. Distinct = distinct program hash.",
		func(h *Hist) bool { return h.fullComp+h.partComp > 0 })
}

func TestC15(t *testing.T) {
	spec := &GenSpec{Prop: "C15", Backings: []string{"store"}, MaxOps: 40, Holds: true, Snapshots: true, Iterators: true,
		StoreSnaps: true, CloseTail: true, Children: exclChildren("C15"), Compaction: []int{0, 1, 2, 2}, KeepFiles: true}
	applyExclusions(spec)
	histCheck(t, spec, oraclesFor[spec.Prop],
		"store-backed programs opening/closing collection snapshots, child snapshots, iterators, store snapshots at generated points relative to rounds, full compactions and Close calls, final close order generated; every open handle keeps returning its first-read content until closed (also after collection and store close); after the last close no /proc/self/fd entry and no /proc/self/maps line names the case directory and the directory holds one data file (polled; KeepFiles cases skip the directory clause). Non-trivial: a handle was re-read after a full compaction or a Close while the collection had changed. Distinct = distinct program hash.",
		func(h *Hist) bool {
			return h.Labels["reread-after:compaction"]+h.Labels["reread-after:coll-close"]+h.Labels["reread-after:store-close"] > 0
		})
}

func TestC09(t *testing.T) {
	spec := &GenSpec{Prop: "C09", Backings: allBackings, Holds: true, Children: exclChildren("C09")}
	applyExclusions(spec)
	Col.SetProp("C09", "program = config x up to 3 rounds of {0-8 shaping ops (batches with frequent deletes, merger cycles, held persister rounds), a collection / child / store snapshot, 1-3 iterators with bounds drawn from {nil, non-nil empty, keys, neighbours of keys, random} and 1-14 calls from {Next xN, SeekTo(x), Current}}; after every call the return value, key and value are compared with a model iterator over the snapshot's first-read content (visit exactly the live k with start <= k < end ascending, ErrIteratorDone repeatedly after the end, SeekTo lands on the least in-range key >= max(x,start)). Non-trivial: a backward SeekTo, a SeekTo after exhaustion or bounds sharing a first byte, on a snapshot with >= 2 sources. Distinct = distinct program hash.")
	rapid.Check(t, func(rt *rapid.T) {
		p, excluded := genIterProgram(rt, spec)
		h := RunHistory(rt, p, oraclesFor["C09"])
		Col.Case(p.Hash(), p.Compact, h.Labels["c09-nontrivial"] > 0, h.Labels, excluded)
	})
}

func TestC14(t *testing.T) {
	Col.SetProp("C14", "case = key set (1-600 keys from four families: tiny alphabet incl. the empty key, numeric, long shared prefix + short suffix, random bytes 0-30) spread over 1-3 persisted segments with overwrites and deletions, optionally fully compacted; the same directory (a copy per option set) is opened with default options (index off: 10 MB threshold) and with 2-6 generated {SegmentKeysIndexMaxBytes in 8..1000/default/off, SegmentKeysIndexMinKeyBytes in 1, total-1, total, total+1, default}; probes = every present key, its neighbours, generated strings, below the first, above the last; for every probe Get, and the ranges [p,nil), [nil,p), [p,q) (full sequence up to 8 entries, else first three + last + count) must equal the reference model under every option set. Non-trivial: a case in which, by the documented formula (estimated from public inputs), an index with >= 2 entries is in use for some segment under some option set. Distinct = distinct case hash.")
	if os.Getenv("VERIF_TIER") == "thorough" && (os.Getenv("VERIF_SHARD") == "0" || os.Getenv("VERIF_SHARD") == "") {
		c14Exhaustive(t)
	}
	rapid.Check(t, func(rt *rapid.T) {
		p := genC14(rt)
		st := RunC14(rt, p)
		labels := map[string]int{}
		if st.indexed > 0 {
			labels["index-in-use(estimated)"] = 1
		}
		Col.AddExtra("option_sets_read", st.optionSets)
		Col.AddExtra("probe_reads", st.probes)
		Col.Case(p.Hash(), func() string {
			s := string(p.Extra)
			if len(s) > 1200 {
				s = s[:1200] + "..."
			}
			return s
		}, st.indexed > 0, labels, 0)
	})
}

// twin returns the metamorphic twin of a program: the same logical history
// with plain and Alloc-built operations swapped and DeferredSort and
// CachePersisted flipped.
func twin(p *Program) *Program {
	q := &Program{}
	if err := json.Unmarshal(p.JSON(), q); err != nil {
		panic(err)
	}
	var flip func(b *Batch)
	flip = func(b *Batch) {
		if b == nil {
			return
		}
		for i := range b.Ops {
			if !b.Ops[i].Reject {
				b.Ops[i].Alloc = !b.Ops[i].Alloc
			}
		}
		for i := range b.Children {
			flip(b.Children[i].B)
		}
	}
	for i := range q.Ops {
		flip(q.Ops[i].B)
	}
	q.Cfg.DeferredSort = !q.Cfg.DeferredSort
	q.Cfg.SparseReads = q.Cfg.DeferredSort // reads sort deferred segments: read sparsely when sorting is deferred
	q.Cfg.CachePersisted = !q.Cfg.CachePersisted
	return q
}

func hostileInProgram(p *Program) (hostile, boundary, limit, reject bool) {
	var walk func(b *Batch)
	isHostile := func(x []byte) bool {
		return bytes.Contains(x, []byte("0m1o2s")) || bytes.Contains(x, []byte("3s4p5s")) || bytes.Contains(x, []byte("moss-data-store"))
	}
	walk = func(b *Batch) {
		if b == nil {
			return
		}
		for _, kv := range b.Ops {
			if kv.Reject {
				reject = true
				continue
			}
			if isHostile(kv.K) || isHostile(kv.V) {
				hostile = true
			}
			if n := len(kv.V); n >= 4076 && n <= 8192 {
				boundary = true
			}
			if len(kv.K) == 1<<24-1 {
				limit = true
			}
		}
		for i := range b.Children {
			walk(b.Children[i].B)
		}
	}
	for _, o := range p.Ops {
		walk(o.B)
	}
	return
}

func TestC19(t *testing.T) {
	spec := &GenSpec{Prop: "C19", Backings: []string{"mem", "store", "store", "store", "ll"}, MaxOps: 25, Holds: true, Reopen: true,
		Hostile: true, Alloc: true, Oversize: true, OversizeValue: os.Getenv("VERIF_TIER") == "thorough", Merge: true, BigBatches: true,
		Compaction: []int{0, 1, 2}}
	Col.SetProp("C19", "histories with keys/values from: tiny alphabet incl. the empty key (alone in a batch too), arbitrary bytes, 0x00/0xFF, the store's magic markers (also as footer-header look-alikes with version and length words), values of 1, 4076, 4095-4097 and 8192 bytes (some ending in the magic), the 2^24-1 byte key (accepted) and 2^24-byte keys / 2^28-byte values (thorough) that must be rejected with ErrKeyTooLarge / ErrValueTooLarge in the middle of a batch; operations built through Alloc/AllocSet/AllocDel/AllocMerge mixed with plain calls. Each program runs twice: as generated and as its twin (plain<->Alloc swapped, DeferredSort and CachePersisted flipped). After every op the collection, after every completed round the store, and at the end the reopened directory are compared byte-exactly and in order with the reference. Non-trivial: the program contains a magic look-alike, a page-boundary-sized value or a limit-sized key AND went through persistence and a reopen. Distinct = distinct program hash.")
	rapid.Check(t, func(rt *rapid.T) {
		p, excluded := genHistory(rt, spec)
		o := Oracles{CollEveryStep: true, StoreEveryStep: true, FinalReopen: true}
		h := RunHistory(rt, p, o)
		h2 := RunHistory(rt, twin(p), o)
		hostile, boundary, limit, reject := hostileInProgram(p)
		labels := h.Labels
		if hostile {
			labels["magic-look-alike"] = 1
		}
		if boundary {
			labels["page-boundary-value"] = 1
		}
		if limit {
			labels["limit-sized-key"] = 1
		}
		if reject {
			labels["rejected-oversize-op"] = 1
		}
		nt := (hostile || boundary || limit) && h.Labels["reopen:caught-up"] > 0 && h2.Labels["reopen:caught-up"] > 0 && h.DataRounds > 0
		Col.Case(p.Hash(), p.Compact, nt, labels, excluded)
	})
}

func genFailPlan(t *rapid.T) []bool {
	switch pick(t, "failpattern", 35, 25, 20, 20) {
	case 0:
		return nil
	case 1: // single
		plan := make([]bool, rapid.IntRange(1, 6).Draw(t, "failat"))
		plan[len(plan)-1] = true
		return plan
	case 2: // repeated burst
		at := rapid.IntRange(0, 4).Draw(t, "burstat")
		k := rapid.IntRange(2, 4).Draw(t, "burstlen")
		plan := make([]bool, at+k)
		for i := at; i < at+k; i++ {
			plan[i] = true
		}
		return plan
	default: // alternating
		n := rapid.IntRange(2, 8).Draw(t, "altlen")
		plan := make([]bool, n)
		for i := 0; i < n; i += 2 {
			plan[i] = true
		}
		return plan
	}
}

func TestC13(t *testing.T) {
	spec := &GenSpec{Prop: "C13", Backings: []string{"ll"}, MaxOps: 35, Holds: true, Merge: true, Children: exclChildren("C13"), NoRecreate: true}
	applyExclusions(spec)
	Col.SetProp("C13", "collection over an application lower level (immutable ordered-map snapshots with children) updated by the documented protocol (iterate `higher` with IncludeDeletions+SkipLowerLevel; Set/Del applied; Merge resolved by higher.Get); programs of Set/Del/Merge batches with merger cycles, held / released updates and generated LowerLevelUpdate failure plans (single, burst, alternating), CachePersisted on/off; 20% of the cases free-running with MaxDirtyOps / MaxDirtyKeyValBytes back-pressure. Checked: collection == reference after every op; lower level == reference prefix after every completed update (exactly the prefix handed down); after a failed update the next call offers exactly the same entries; every successful update leaves a batch-prefix state and never goes back; after draining the lower level == full reference; moss never reads a lower-level snapshot it has closed. Non-trivial: >= 2 successful updates and (a failed update in between or a batch executed while an update was parked), or a free-running case with a failure. Distinct = distinct program hash.")
	rapid.Check(t, func(rt *rapid.T) {
		p, excluded := genHistory(rt, spec)
		x := C13Extra{FailPlan: genFailPlan(rt)}
		if chance(rt, "free", 20) {
			x.Free = true
			p.Cfg.MaxDirtyOps = rapid.SampledFrom([]uint64{0, 1, 3, 10}).Draw(rt, "maxDirtyOps")
			p.Cfg.MaxDirtyBytes = rapid.SampledFrom([]uint64{0, 8, 64}).Draw(rt, "maxDirtyBytes")
		}
		b, _ := json.Marshal(&x)
		p.Extra = b
		h := RunC13(rt, p)
		nt := false
		if x.Free {
			nt = h.LL.Fails > 0 && h.LL.Updates >= 2
		} else {
			nt = h.LL.Updates >= 3 && (h.Labels["failed-update"] > 0 || h.Labels["read-while-persister-held"] > 0)
		}
		Col.Case(p.Hash(), p.Compact, nt, h.Labels, excluded)
	})
}

func TestC12(t *testing.T) {
	spec := &GenSpec{Prop: "C12", Backings: []string{"store"}, Children: exclChildren("C12"), Compaction: []int{0, 0, 1}}
	applyExclusions(spec)
	Col.SetProp("C12", "store-backed programs over {batch, merger cycle (each hands the dirty data to a persistence round that completes), walk back N steps with SnapshotPrevious, SnapshotRevert to the snapshot N steps back (collection closed first, then a new collection is opened on the store), drain+reopen}, compaction disabled or allowed. The oracle records the store content after every round that wrote a footer (Store.Stats total_persists delta), reset by any compaction; walking back must yield these newest first, each compared completely, then nil; a revert to a snapshot obtained since the last compaction must succeed, the store's snapshot, a reopened copy of the directory AND (syncing on; file operations recorded) the power-loss image of the directory at the moment SnapshotRevert returned - every file cut back to what its last completed Sync covers, natural and extended length - must equal the target, later batches build on it; a final full walk and reopen close every case. Non-trivial: a walk of >= 2 steps over rounds with deletions, or a revert followed by new batches. Distinct = distinct program hash.")
	rapid.Check(t, func(rt *rapid.T) {
		p, excluded := genC12(rt, spec)
		c := RunC12(rt, p)
		nt := (c.deepWalks > 0 && c.hadDel) || c.revertCont
		if c.deepWalks > 0 {
			c.Label("walk>=2")
		}
		if c.revertCont {
			c.Label("revert-then-batches")
		}
		Col.Case(p.Hash(), p.Compact, nt, c.Labels, excluded)
	})
}

func TestC18(t *testing.T) {
	spec := &GenSpec{Prop: "C18", Backings: []string{"store"}, Children: exclChildren("C18"), Merge: true}
	applyExclusions(spec)
	Col.SetProp("C18", "a writer history (batches, persistence rounds, compactions; KeepFiles on/off; drained or early close) produces a directory, which is then tampered with (0-2 of: empty / garbage / header-only newer data file, truncated copy of the newest file as a newer file, newest file torn by 1..5000 bytes, unrelated file, old-numbered junk); the directory is opened ReadOnly with generated StoreOptions through a recording File wrapper and a generated program runs against it: collection and store snapshot reads, batches (fewer than MaxPreMergerBatches), asynchronous notifications, Store.Persist with every CompactionConcern, SnapshotPrevious walks, closes. Checked after the open and after every step: the directory listing (names, sizes, modes, SHA-256) is unchanged, the wrapper saw no create/truncate/write/sync; the content served equals what a normal open of a copy of the directory serves (plus the batches executed against the read-only collection); a ReadOnly open succeeds exactly when the normal open does. Non-trivial: >= 2 data files or an incomplete newest file in the directory, and >= 1 batch executed against the read-only collection. Distinct = distinct program hash.")
	rapid.Check(t, func(rt *rapid.T) {
		p := genC18(rt, spec)
		r := RunC18(rt, p)
		Col.Case(p.Hash(), func() string { return p.Compact() + " extra=" + clip(string(p.Extra), 400) }, r.nontrivial, r.labels, 0)
	})
}

func TestC05(t *testing.T) {
	spec := &GenSpec{Prop: "C05", Backings: []string{"store"}, Children: exclChildren("C05"), BigBatches: true, Hostile: true, Merge: true}
	applyExclusions(spec)
	Col.SetProp("C05", "a generated store-backed workload (batches incl. bulk batches, child collections, hostile keys; persistence rounds; partial / full / idle compactions; drain+reopen; SnapshotRevert to a snapshot 0-3 steps back (collection closed, reopened afterwards); NoSync on or off) runs once under a recording File wrapper -> trace of create/write/sync/unlink with 'batch i executed' and 'round covering prefix k completed' marks. Crash images: for EVERY trace position: the process-kill image (all completed operations applied), the in-flight write torn at 1, every page boundary inside it, len-1 and generated offsets; and, when syncing is on, the power-loss images: writes since the file's last completed sync applied as any subset of 4096-byte block pieces (all 2^n subsets when n <= 10, else extremes + prefixes + generated masks), each with natural and full file length; directory operations ordered and durable. Every distinct image (by content hash) is reopened with default options (a quarter also ReadOnly): the open must succeed without panic and the content must equal one of the reference states reached so far (after a batch prefix, or a revert target once its revert has started), no older than the prefix covered by the last round that completed before the crash point with syncing enabled (NoSync off). evaluations = distinct crash images reopened. Non-trivial: an image taken strictly inside a round or compaction (or with unsynced pieces / a torn write) while an earlier durable round exists. Distinct = distinct image hash within its trace.")
	rapid.Check(t, func(rt *rapid.T) {
		p := genC05(rt, spec)
		st := RunC05(rt, p)
		Col.AddExtra("traces", 1)
		Col.AddExtra("images_built", st.images)
		Col.AddExtra("trace_ops", st.labels["trace-ops"])
		delete(st.labels, "trace-ops")
		Col.CaseN(p.Hash(), st.distinct, st.insideRound, st.samples, st.labels)
	})
}

func TestC06(t *testing.T) {
	spec := &GenSpec{Prop: "C06", Backings: []string{"store"}, MaxOps: 16, Reopen: true, BigBatches: true,
		Children: exclChildren("C06"), Compaction: []int{0, 1, 1, 2}}
	applyExclusions(spec)
	if spec.NoStructOnlyEmpty {
		// with injected faults the store can hold nothing although key
		// operations were executed: the open finding F14e needs the broad exclusion
		spec.NoStructOnly = true
	}
	thorough := os.Getenv("VERIF_TIER") == "thorough"
	Col.SetProp("C06", "a generated store-backed workload (batches, persistence rounds incl. partial / full / idle compactions, drain+reopen) runs fault-free once to count its file operations, then again once per injected fault: site = index of a file operation (quick: 12 generated sites per workload; thorough: every site up to 150) x kind by the operation hit (create/open error, WriteAt error, short write of 0% / 50% / 99% with io.ErrShortWrite or, for single faults, with no error at all, Sync error, Stat error) x shape (single, burst of 2-5 consecutive operations, persistent until a generated later step). After every step: collection == reference; Store.Snapshot() == the reference prefix covered by the rounds that reported success (a round that ends without OnError must really contain its batches - checked by reading everything); after a failed round (surfaced through OnError, which the controller requires) a copy of the directory must reopen to a batch prefix no shorter than that; once faults stop, draining must reach the full reference in the store and after reopen. evaluations = faulted runs. Non-trivial: the fault was actually hit (wrapper counter). Distinct = distinct (program, fault).")
	rapid.Check(t, func(rt *rapid.T) {
		p, _ := genHistory(rt, spec)
		x := C06Extra{All: thorough}
		if !thorough {
			for i := 0; i < 12; i++ {
				f := FaultSpec{Site: rapid.IntRange(0, 400).Draw(rt, "site"), ShortPct: -1}
				f.Class = rapid.SampledFrom([]string{"", "", "header", "footer", "data", "data", "data", "sync", "open", "stat"}).Draw(rt, "class")
				switch pick(rt, "shape", 50, 25, 25) {
				case 0:
					f.Shape = "single"
				case 1:
					f.Shape, f.K = "burst", rapid.IntRange(2, 5).Draw(rt, "k")
				case 2:
					f.Shape, f.UntilStep = "until", rapid.IntRange(1, 16).Draw(rt, "until")
				}
				if chance(rt, "short", 40) {
					f.ShortPct = rapid.SampledFrom([]int{0, 50, 99}).Draw(rt, "shortpct")
					f.Silent = f.Shape == "single" && chance(rt, "silent", 35)
				}
				x.Faults = append(x.Faults, f)
			}
		}
		b, _ := json.Marshal(&x)
		p.Extra = b
		st := RunC06(rt, p)
		Col.AddExtra("workloads", 1)
		Col.AddExtra("file_ops_in_baselines", st.baselineN)
		Col.CaseN(p.Hash(), st.runs, st.hit, st.samples, st.labels)
	})
}

func TestC03(t *testing.T) {
	Col.SetProp("C03", "free-running collection (in-memory, mossStore, application lower level; MaxPreMergerBatches 1-3 so that writers block; optional MaxDirtyOps/Bytes); 1-4 writers with disjoint key prefixes execute 1-40 batches each: batch i sets the writer's marker to i and Sets/Dels a generated subset of its keys, in the top level and in 0-2 child collections; 1-3 snapshot readers and a Collection.Get reader run concurrently; generated perturbation vector (Gosched / micro-sleeps at OnEvent and file-operation points) and GOMAXPROCS in {2,4,16}. Oracle per snapshot and writer: read the marker m, then ALL of that writer's keys at every level - they must equal the precomputed state after exactly m batches; m never decreases between successive snapshots of a reader; m >= the number of batches whose ExecuteBatch had returned before the snapshot (or Get) started. Non-trivial: a run in which some snapshot observed a strict intermediate prefix while at least one merger cycle completed. Distinct = distinct program hash (schedules are sampled, not enumerated).")
	cs := &ConcSpec{Prop: "C03", Children: true}
	rapid.Check(t, func(rt *rapid.T) {
		p := genConc(rt, cs)
		r := RunConc(rt, p)
		r.labels["backing:"+p.Cfg.Backing]++
		Col.AddExtra("snapshots_checked", r.snapshots)
		Col.AddExtra("snapshots_with_intermediate_prefix", r.intermediate)
		Col.Case(p.Hash(), func() string { return ConcCompact(p) }, r.intermediate > 0 && r.mergerCycles > 0, r.labels, 0)
	})
}

func TestC16(t *testing.T) {
	Col.SetProp("C16", "two kinds of cases. (a) free-running: writers (disjoint keys), snapshot and Get readers, synchronous NotifyMerger callers, MaxPreMergerBatches 1-3, small MaxDirtyOps/Bytes, application lower level that is slow / failing / stalls once, perturbation vector; Close is called after a generated number of batches returned; every call runs under a watchdog (a call that does not return within the stall bound is the violation); writers blocked at Close must return ErrClosed (or nil if admitted before); after Close returned NewBatch, Snapshot, Get return ErrClosed and a synchronous NotifyMerger returns. (b) deterministic admission bound: with the merger parked by the controller, MaxPreMergerBatches + k non-empty batches are issued concurrently; at most MaxPreMergerBatches may return, the others must be counted in TotExecuteBatchWaitBeg, and all return once the merger is released. Non-trivial: at Close time a writer was provably blocked on back-pressure or the persister was inside the lower level, or the admission bound was exercised. Distinct = distinct program hash.")
	cs := &ConcSpec{Prop: "C16", Close: true, Notifiers: true, SlowLL: true}
	spec := &GenSpec{Prop: "C16", Backings: []string{"mem", "store", "ll"}, Children: true}
	rapid.Check(t, func(rt *rapid.T) {
		var p *Program
		if chance(rt, "admission", 30) {
			p = &Program{Prop: "C16"}
			p.Cfg = genConfig(rt, spec)
			p.Cfg.MaxPreMergerBatches = rapid.SampledFrom([]int{1, 2, 3}).Draw(rt, "maxPreMerger")
			g := &genState{spec: spec, model: NewNode(), deadKids: map[string]bool{}}
			g.keys = genKeyPool(rt, false, 6)
			p.Ops = append(p.Ops, Op{Kind: "admission"})
			n := p.Cfg.MaxPreMergerBatches + rapid.IntRange(1, 5).Draw(rt, "extra")
			for i := 0; i < n; i++ {
				b := g.nextBatch(rt)
				if batchIsNoop(b) {
					b = &Batch{Ops: []KV{{Op: OpSet, K: []byte("a"), V: []byte("x")}}}
				}
				p.Ops = append(p.Ops, Op{Kind: "batch", B: b})
			}
		} else {
			p = genConc(rt, cs)
		}
		r := RunC16(rt, p)
		r.labels["backing:"+p.Cfg.Backing]++
		Col.Case(p.Hash(), func() string {
			if len(p.Ops) > 0 {
				return p.Compact()
			}
			return ConcCompact(p)
		}, r.blockedAtClose, r.labels, 0)
	})
}

func TestC17(t *testing.T) {
	Col.SetProp("C17", "the concurrent programs of C03 and C16 (writers on disjoint keys with child batches, snapshot readers, Collection.Get reader, synchronous notifiers, optional Close at a generated point) plus pollers calling Stats, Histograms, Options, Store.Stats, Store.Histograms, Store.Snapshot and running iterators across merger hand-overs; option grid DeferredSort x CachePersisted x compaction concern x child collections x backing; the test binary is built with -race and any 'WARNING: DATA RACE' report fails the run (the journalled program and the report become the replay). Non-trivial: readers overlapped at least one completed merger cycle and (with a lower level) one completed persistence round. Distinct = distinct program hash (schedules are sampled).")
	rapid.Check(t, func(rt *rapid.T) {
		cs := &ConcSpec{Prop: "C17", Pollers: true, Notifiers: true, Children: true, SlowLL: true, Close: chance(rt, "withclose", 30)}
		p := genConc(rt, cs)
		r := RunConc(rt, p)
		r.labels["backing:"+p.Cfg.Backing]++
		if p.Cfg.DeferredSort {
			r.labels["deferredSort"]++
		}
		nt := r.mergerCycles > 0 && (p.Cfg.Backing == "mem" || r.rounds > 0) && r.snapshots > 0
		Col.Case(p.Hash(), func() string { return ConcCompact(p) }, nt, r.labels, 0)
	})
}

// ---- native fuzz targets (thorough tier): rapid's generators driven by the
// coverage-guided mutator through rapid.MakeFuzz ----

func fuzzSeeds(f *testing.F) {
	f.Add([]byte{})
	f.Add(bytes.Repeat([]byte{0xff}, 64))
	f.Add(bytes.Repeat([]byte{0x00, 0x7f, 0x80, 0xff, 0x01}, 40))
	f.Add([]byte("0m1o2s0m1o2s\x04\x00\x00\x00\x10\x00\x00\x003s4p5s3s4p5s"))
}

func FuzzC09(f *testing.F) {
	fuzzSeeds(f)
	spec := &GenSpec{Prop: "C09", Backings: allBackings, Holds: true, Children: true}
	f.Fuzz(rapid.MakeFuzz(func(rt *rapid.T) {
		p, _ := genIterProgram(rt, spec)
		RunHistory(rt, p, oraclesFor["C09"])
	}))
}

func FuzzC14(f *testing.F) {
	fuzzSeeds(f)
	f.Fuzz(rapid.MakeFuzz(func(rt *rapid.T) {
		RunC14(rt, genC14(rt))
	}))
}

func FuzzC19(f *testing.F) {
	fuzzSeeds(f)
	spec := &GenSpec{Prop: "C19", Backings: []string{"mem", "store", "store", "ll"}, MaxOps: 20, Holds: true, Reopen: true,
		Hostile: true, Alloc: true, Merge: true}
	f.Fuzz(rapid.MakeFuzz(func(rt *rapid.T) {
		p, _ := genHistory(rt, spec)
		o := Oracles{CollEveryStep: true, StoreEveryStep: true, FinalReopen: true}
		RunHistory(rt, p, o)
		RunHistory(rt, twin(p), o)
	}))
}


// c14Exhaustive: bounded exhaustive sweep - every non-empty key set of up to
// 4 keys over {"", a, aa, ab, b}, as one segment, under every quota 8..64
// (step 4) with the index forced on, probed with every string over {a,b} of
// length <= 3 plus the neighbours of the keys.
func c14Exhaustive(t *testing.T) {
	alphabet := [][]byte{[]byte(""), []byte("a"), []byte("aa"), []byte("ab"), []byte("b")}
	var probes [][]byte
	var rec func(prefix []byte, n int)
	rec = func(prefix []byte, n int) {
		probes = append(probes, append([]byte{}, prefix...))
		if n == 0 {
			return
		}
		for _, c := range []byte{'a', 'b'} {
			rec(append(append([]byte{}, prefix...), c), n-1)
		}
	}
	rec(nil, 3)
	cases := 0
	for mask := 1; mask < 1<<len(alphabet); mask++ {
		var seg []KV
		for i, k := range alphabet {
			if mask&(1<<i) != 0 {
				seg = append(seg, KV{Op: OpSet, K: k, V: []byte(fmt.Sprintf("v%d", i))})
			}
		}
		if len(seg) > 4 {
			continue
		}
		c := C14Case{Segments: [][]KV{seg}, Probes: probes}
		for q := 8; q <= 64; q += 4 {
			c.Opts = append(c.Opts, [2]int{q, 1})
		}
		b, _ := json.Marshal(&c)
		p := &Program{Prop: "C14", Cfg: Config{Backing: "store"}, Extra: b}
		st := RunC14(t, p)
		cases++
		Col.AddExtra("exhaustive_subrun_option_sets", st.optionSets)
	}
	Col.AddExtra("exhaustive_subrun_key_sets", cases)
}
