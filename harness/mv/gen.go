package mv

import (
	"bytes"
	"encoding/json"
	"fmt"

	"pgregory.net/rapid"
)

var childPool = []string{"A", "B", "C", "D"}

var smallKeys = []string{
	"a", "", "aa", "ab", "b", "a\x00", "a\xff", "ba", "bb", "c", "\x00", "\xff", "\xff\xff", "abc", "abd", "\x00\x00",
}

var hostileStrings = []string{
	"0m1o2s", "3s4p5s", "0m1o2s0m1o2s", "3s4p5s3s4p5s",
	"0m1o2s0m1o2s\x04\x00\x00\x00\x00\x00\x00\x00",
	"0m1o2s0m1o2s\x04\x00\x00\x00\x10\x00\x00\x00",
	"0m1o2s0m1o2s\x04\x00\x00\x00\xff\xff\xff\x7f",
	"0m1o2s0m1o2s\x03\x00\x00\x00\x40\x00\x00\x00",
	"moss-data-store:\n",
}

// pick draws an index according to integer weights (index 0 is the
// simplest choice: rapid shrinks towards it).
func pick(t *rapid.T, label string, weights ...int) int {
	tot := 0
	for _, w := range weights {
		tot += w
	}
	x := rapid.IntRange(0, tot-1).Draw(t, label)
	for i, w := range weights {
		if x < w {
			return i
		}
		x -= w
	}
	return len(weights) - 1
}

func chance(t *rapid.T, label string, pct int) bool {
	return rapid.IntRange(0, 99).Draw(t, label) >= 100-pct
}

// GenSpec selects which dimensions a property's generator varies.
type GenSpec struct {
	Prop       string
	Backings   []string // choices for Config.Backing
	Children   bool
	NoRecreate bool // never reuse a child name after deleting it
	Merge      bool
	Hostile    bool // hostile constants / page-boundary sizes in keys & values
	MaxOps     int
	Holds      bool
	Reopen     bool
	EarlyClose bool // reopen without draining
	Snapshots  bool
	Iterators  bool
	StoreSnaps bool
	BigBatches bool
	BulkPct    int // probability (%) of a bulk batch at the top level; default 10
	KeepFiles  bool
	CloseTail  bool // close collection/store with handles open, re-read, close handles in any order
	KeyPoolMax int
	Alloc         bool // build some operations through Alloc/AllocSet/...
	Oversize      bool // rejected oversize operations and limit-sized keys
	OversizeValue bool // also 2^28-byte values (slow)
	ChildPct   int // probability (%) that a top-level batch mentions children; default 35
	ReopenCfg  bool // reopen may change options
	PersistNil bool // Store.Persist(nil, CompactionForce) while the persister is idle
	Compaction []int // choices; nil = {0,1,2}
	// NoChildOnly excludes batches whose top level is empty while children
	// are mentioned (known findings F5/F11/F14).
	NoChildOnly bool
	// NoStructOnly excludes batches that only create/delete children without
	// any key operation anywhere (F14 family).
	NoStructOnly bool
	// NoStructOnlyEmpty excludes such batches only while no key operation has
	// been generated yet (the store may hold no segment at all: F14e).
	NoStructOnlyEmpty bool
}

type genState struct {
	spec     *GenSpec
	keys     [][]byte
	model    *Node
	batchNo  int
	deadKids map[string]bool // path-qualified child names deleted once
	excluded int
	bigPlan    int // 0 none, 1 one rejected oversize op, 2 one limit-sized key
	bigAt      int
	bigSeen    bool
	everKey    bool // some key operation was generated since the store could last be empty
}

func genKeyPool(t *rapid.T, hostile bool, max int) [][]byte {
	if max <= 0 {
		max = 10
	}
	n := rapid.IntRange(1, max).Draw(t, "nkeys")
	seen := map[string]bool{}
	var out [][]byte
	for i := 0; i < n; i++ {
		var k []byte
		wh := 0
		if hostile {
			wh = 12
		}
		switch pick(t, "keykind", 70, 18, wh) {
		case 0:
			k = []byte(rapid.SampledFrom(smallKeys).Draw(t, "sk"))
		case 1:
			k = rapid.SliceOfN(rapid.Byte(), 0, 24).Draw(t, "rk")
		case 2:
			k = []byte(rapid.SampledFrom(hostileStrings).Draw(t, "hk"))
		}
		if !seen[string(k)] {
			seen[string(k)] = true
			out = append(out, k)
		}
	}
	return out
}

func (g *genState) genValue(t *rapid.T) []byte {
	wh := 0
	if g.spec.Hostile {
		wh = 8
	}
	switch pick(t, "valkind", 55, 22, 15, wh) {
	case 0:
		tail := rapid.SliceOfN(rapid.ByteRange('a', 'e'), 0, 4).Draw(t, "vt")
		return append([]byte(fmt.Sprintf("v%d.", g.batchNo)), tail...)
	case 1:
		return []byte{}
	case 2:
		return rapid.SliceOfN(rapid.Byte(), 1, 48).Draw(t, "vb")
	default:
		if chance(t, "pagesize", 40) {
			n := rapid.SampledFrom([]int{4095, 4096, 4097, 4076, 8192, 1}).Draw(t, "vlen")
			v := bytes.Repeat([]byte{byte('A' + g.batchNo%26)}, n)
			if rapid.Bool().Draw(t, "magictail") && n > 12 {
				copy(v[n-12:], "0m1o2s0m1o2s")
			}
			return v
		}
		h := []byte(rapid.SampledFrom(hostileStrings).Draw(t, "hv"))
		return append(h, []byte(fmt.Sprintf("#%d", g.batchNo))...)
	}
}

// genOps draws operations over distinct keys for one batch level.
func (g *genState) genOps(t *rapid.T, cur *Node, maxN int) []KV {
	n := 0
	switch pick(t, "nops", 30, 30, 20, 12, 8) {
	case 0:
		n = 1
	case 1:
		n = 2
	case 2:
		n = 3
	case 3:
		n = rapid.IntRange(4, 8).Draw(t, "n")
	case 4:
		n = 0
	}
	if n > maxN {
		n = maxN
	}
	used := map[string]bool{}
	var ops []KV
	for i := 0; i < n; i++ {
		var k []byte
		if len(g.keys) > 0 {
			k = g.keys[rapid.IntRange(0, len(g.keys)-1).Draw(t, "ki")]
		}
		if g.spec.BigBatches && chance(t, "bulkkey", 12) {
			k = []byte(fmt.Sprintf("k%04d", rapid.IntRange(0, 700).Draw(t, "bk")))
		}
		if used[string(k)] {
			continue
		}
		used[string(k)] = true
		_, exists := cur.KV[string(k)]
		wd := 15
		if exists {
			wd = 40
		}
		wm := 0
		if g.spec.Merge {
			wm = 45
		}
		kv := KV{K: k}
		switch pick(t, "opkind", 55, wd, wm) {
		case 0:
			kv.Op = OpSet
			kv.V = g.genValue(t)
		case 1:
			kv.Op = OpDel
		case 2:
			kv.Op = OpMerge
			if chance(t, "keepoperand", 15) {
				kv.V = []byte(KeepOperand)
			} else {
				kv.V = append([]byte(fmt.Sprintf("m%d", g.batchNo)), rapid.SliceOfN(rapid.ByteRange('a', 'c'), 0, 2).Draw(t, "mt")...)
			}
		}
		if g.spec.Alloc && chance(t, "alloc", 40) {
			kv.Alloc = true
		}
		ops = append(ops, kv)
	}
	if g.bigPlan == 1 && g.batchNo >= g.bigAt {
		// an operation the library must reject, in the middle of the batch
		g.bigPlan = 0
		big := KV{Op: OpSet, Reject: true}
		g.bigSeen = true
		if g.spec.OversizeValue && chance(t, "bigval", 30) {
			big.K = []byte("oversize-value")
			big.V = make([]byte, 1<<28)
		} else {
			big.K = make([]byte, 1<<24)
			big.V = []byte("x")
		}
		pos := 0
		if len(ops) > 0 {
			pos = rapid.IntRange(0, len(ops)).Draw(t, "bigpos")
		}
		ops = append(ops[:pos], append([]KV{big}, ops[pos:]...)...)
	}
	if g.bigPlan == 2 && g.batchNo >= g.bigAt {
		// the largest key the library must accept
		g.bigPlan = 0
		g.bigSeen = true
		k := bytes.Repeat([]byte{0xfe}, 1<<24-1)
		ops = append(ops, KV{Op: OpSet, K: k, V: []byte("maxkey")})
	}
	return ops
}

// genBulk draws a larger batch over a numeric key range (segment sizes that
// span compaction levels).
func (g *genState) genBulk(t *rapid.T, cur *Node) []KV {
	n := rapid.SampledFrom([]int{20, 60, 150, 400}).Draw(t, "bulkn")
	off := rapid.IntRange(0, 300).Draw(t, "bulkoff")
	stride := rapid.IntRange(1, 3).Draw(t, "bulkstride")
	delEvery := rapid.IntRange(0, 5).Draw(t, "bulkdel")
	vlen := rapid.SampledFrom([]int{0, 3, 30}).Draw(t, "bulkvlen")
	ops := make([]KV, 0, n)
	for i := 0; i < n; i++ {
		k := []byte(fmt.Sprintf("k%04d", off+i*stride))
		if delEvery > 0 && i%delEvery == delEvery-1 {
			ops = append(ops, KV{Op: OpDel, K: k})
			continue
		}
		v := []byte(fmt.Sprintf("w%d.", g.batchNo))
		for len(v) < vlen {
			v = append(v, 'x')
		}
		if vlen == 0 && i%2 == 0 {
			v = []byte{}
		}
		ops = append(ops, KV{Op: OpSet, K: k, V: v})
	}
	return ops
}

func (g *genState) genBatch(t *rapid.T, cur *Node, depth int, path string) *Batch {
	b := &Batch{}
	bulkPct := 10
	if g.spec.BulkPct > 0 {
		bulkPct = g.spec.BulkPct
	}
	if depth == 0 && g.spec.BigBatches && chance(t, "bulk", bulkPct) {
		if len(cur.KV) >= 20 && chance(t, "deleteall", 50) {
			// delete every live key: a later full compaction leaves no entry
			for _, k := range cur.Keys() {
				b.Ops = append(b.Ops, KV{Op: OpDel, K: []byte(k)})
			}
		} else {
			b.Ops = g.genBulk(t, cur)
		}
	} else {
		b.Ops = g.genOps(t, cur, 8)
	}
	if g.spec.Children && depth < 3 {
		p := 35
		if g.spec.ChildPct > 0 {
			p = g.spec.ChildPct
		}
		if depth > 0 {
			p = 20
		}
		if chance(t, "kids", p) {
			nk := 1
			if chance(t, "twokids", 25) {
				nk = 2
			}
			used := map[string]bool{}
			for i := 0; i < nk; i++ {
				name := rapid.SampledFrom(childPool[:3]).Draw(t, "cname")
				if used[name] {
					continue
				}
				used[name] = true
				sub, exists := cur.Children[name]
				qn := path + "/" + name
				wdel := 8
				if exists {
					wdel = 30
				}
				if pick(t, "ckind", 70, wdel) == 1 {
					b.Children = append(b.Children, ChildBatch{Name: name, Del: true})
					if exists {
						g.deadKids[qn] = true
					}
					continue
				}
				if !exists && g.spec.NoRecreate && g.deadKids[qn] {
					g.excluded++
					continue
				}
				if !exists {
					sub = NewNode()
				}
				cb := g.genBatch(t, sub, depth+1, qn)
				b.Children = append(b.Children, ChildBatch{Name: name, B: cb})
			}
		}
	}
	return b
}

// batchHasKeyOps: any key operation at any level.
func batchHasKeyOps(b *Batch) bool {
	if b == nil {
		return false
	}
	if len(b.Ops) > 0 {
		return true
	}
	for i := range b.Children {
		if batchHasKeyOps(b.Children[i].B) {
			return true
		}
	}
	return false
}

// batchChildOnly: some level has children mentioned but no key op of its own
// while the store/collection level above must persist it.
func batchChildOnly(b *Batch) bool {
	if b == nil {
		return false
	}
	if len(b.Ops) == 0 && len(b.Children) > 0 {
		return true
	}
	return false
}

// genStructural draws a batch without any key operation: along a path of
// 1-3 child names it ends by deleting a child or by creating an empty one.
func (g *genState) genStructural(t *rapid.T) *Batch {
	depth := rapid.IntRange(1, 3).Draw(t, "sdepth")
	root := &Batch{}
	cur := root
	node := g.model
	path := ""
	for d := 1; d <= depth; d++ {
		name := rapid.SampledFrom(childPool[:3]).Draw(t, "sname")
		path += "/" + name
		var sub *Node
		if node != nil {
			sub = node.Children[name]
		}
		last := d == depth
		if last && sub != nil && rapid.Bool().Draw(t, "sdel") {
			cur.Children = append(cur.Children, ChildBatch{Name: name, Del: true})
			g.deadKids[path] = true
			return root
		}
		if sub == nil && g.spec.NoRecreate && g.deadKids[path] {
			g.excluded++
			return root
		}
		nb := &Batch{}
		cur.Children = append(cur.Children, ChildBatch{Name: name, B: nb})
		cur = nb
		node = sub
	}
	return root
}

// genDeepOnly draws a batch whose only key operations sit in a grandchild
// (or deeper) collection: nothing at the top level, nothing in between.
func (g *genState) genDeepOnly(t *rapid.T) *Batch {
	depth := rapid.IntRange(2, 3).Draw(t, "ddepth")
	root := &Batch{}
	cur := root
	node := g.model
	path := ""
	for d := 1; d <= depth; d++ {
		name := rapid.SampledFrom(childPool[:3]).Draw(t, "dname")
		path += "/" + name
		var sub *Node
		if node != nil {
			sub = node.Children[name]
		}
		if sub == nil && g.spec.NoRecreate && g.deadKids[path] {
			g.excluded++
			break
		}
		nb := &Batch{}
		cur.Children = append(cur.Children, ChildBatch{Name: name, B: nb})
		cur = nb
		node = sub
	}
	if node == nil {
		node = NewNode()
	}
	cur.Ops = g.genOps(t, node, 4)
	if len(cur.Ops) == 0 {
		k := []byte("a")
		if len(g.keys) > 0 {
			k = g.keys[0]
		}
		cur.Ops = []KV{{Op: OpSet, K: k, V: []byte(fmt.Sprintf("v%d.d", g.batchNo))}}
	}
	return root
}

func (g *genState) nextBatch(t *rapid.T) *Batch {
	g.batchNo++
	var b *Batch
	if g.spec.Children && !g.spec.NoStructOnly && chance(t, "structural", 6) {
		b = g.genStructural(t)
	} else if g.spec.Children && chance(t, "deeponly", 5) {
		b = g.genDeepOnly(t)
	} else {
		b = g.genBatch(t, g.model, 0, "")
	}
	if g.spec.NoChildOnly && batchChildOnly(b) {
		g.excluded++
		k := []byte("a")
		if len(g.keys) > 0 {
			k = g.keys[0]
		}
		b.Ops = []KV{{Op: OpSet, K: k, V: []byte(fmt.Sprintf("v%d.x", g.batchNo))}}
	}
	if g.spec.NoStructOnlyEmpty && !g.everKey && len(b.Children) > 0 && !batchHasKeyOps(b) {
		// open finding F14e: children created in a store that holds no
		// segment at all are not persisted
		g.excluded++
		k := []byte("a")
		if len(g.keys) > 0 {
			k = g.keys[0]
		}
		b.Ops = []KV{{Op: OpSet, K: k, V: []byte(fmt.Sprintf("v%d.z", g.batchNo))}}
	}
	if batchHasKeyOps(b) {
		g.everKey = true
	}
	if g.spec.NoStructOnly && len(b.Children) > 0 && !batchHasKeyOps(b) {
		g.excluded++
		k := []byte("a")
		if len(g.keys) > 0 {
			k = g.keys[0]
		}
		b.Ops = []KV{{Op: OpSet, K: k, V: []byte(fmt.Sprintf("v%d.y", g.batchNo))}}
	}
	g.model.Apply(b)
	return b
}

func genConfig(t *rapid.T, spec *GenSpec) Config {
	c := Config{}
	c.Backing = rapid.SampledFrom(spec.Backings).Draw(t, "backing")
	c.MinMergePct = rapid.SampledFrom([]float64{0, 0.01, 5}).Draw(t, "minMergePct")
	c.DeferredSort = chance(t, "deferredSort", 30)
	if c.DeferredSort {
		// every read sorts the deferred segments it touches; with sparse reads
		// the merger and persister meet segments nobody has sorted yet
		c.SparseReads = chance(t, "sparseReads", 60)
	}
	c.CachePersisted = chance(t, "cachePersisted", 40)
	c.MaxPreMergerBatches = rapid.SampledFrom([]int{0, 3, 1, 2}).Draw(t, "maxPreMerger")
	c.MergeOp = spec.Merge
	if c.Backing == "store" {
		comp := spec.Compaction
		if comp == nil {
			comp = []int{0, 1, 2}
		}
		c.Compaction = rapid.SampledFrom(comp).Draw(t, "compaction")
		c.LevelMaxSegs = rapid.SampledFrom([]int{0, 2, 1, 3}).Draw(t, "levelMaxSegs")
		c.LevelMultiplier = rapid.SampledFrom([]int{0, 2, 3}).Draw(t, "levelMult")
		c.CompactionPct = rapid.SampledFrom([]float64{0, 0.001, 1.5}).Draw(t, "compactionPct")
		c.BufferPages = rapid.SampledFrom([]int{0, 1, 2}).Draw(t, "bufferPages")
		c.CompactionSync = chance(t, "compactionSync", 20)
		c.SyncAfterBytes = rapid.SampledFrom([]int{0, -1, 64}).Draw(t, "syncAfterBytes")
		c.NoSync = chance(t, "noSync", 30)
		c.IdxMaxBytes = rapid.SampledFrom([]int{0, -1, 16, 200}).Draw(t, "idxMaxBytes")
		c.IdxMinKeyBytes = rapid.SampledFrom([]int{0, 1}).Draw(t, "idxMinKeyBytes")
		if spec.KeepFiles {
			c.KeepFiles = chance(t, "keepFiles", 15)
		}
	}
	return c
}

var gateKinds = []string{"first", "sync1", "footer", "sync2"}
var mstepKinds = []string{"", "mergeAll", "from-idle-merger"}

// genHistory draws a complete program for the history-style checks.
func genHistory(t *rapid.T, spec *GenSpec) (*Program, int) {
	p := &Program{Prop: spec.Prop}
	p.Cfg = genConfig(t, spec)
	if p.Cfg.Backing == "ll" && spec.Children && !spec.NoRecreate {
		// An application lower level has no notion of child incarnations
		// (the Snapshot interface carries none), so delete + recreate of a
		// child name is outside what it can represent.
		sp := *spec
		sp.NoRecreate = true
		spec = &sp
	}
	g := &genState{spec: spec, model: NewNode(), deadKids: map[string]bool{}}
	g.keys = genKeyPool(t, spec.Hostile, spec.KeyPoolMax)
	if spec.Oversize {
		g.bigPlan = pick(t, "bigplan", 92, 4, 4)
		g.bigAt = rapid.IntRange(1, 4).Draw(t, "bigat")
	}
	maxOps := spec.MaxOps
	if maxOps == 0 {
		maxOps = 40
	}
	nops := rapid.IntRange(1, maxOps).Draw(t, "nops")
	if spec.BigBatches && p.Cfg.Backing == "store" && p.Cfg.Compaction == 1 && chance(t, "partialbias", 35) {
		// shape that makes level-based *partial* compactions likely: one big old
		// segment, then small rounds, few segments per level, no fragmentation veto
		p.Cfg.LevelMaxSegs = rapid.SampledFrom([]int{2, 2, 3}).Draw(t, "pbMaxSegs")
		p.Cfg.LevelMultiplier = rapid.SampledFrom([]int{3, 2}).Draw(t, "pbMult")
		p.Cfg.CompactionPct = 1.5
		g.batchNo++
		b := &Batch{Ops: g.genBulk(t, g.model)}
		g.model.Apply(b)
		g.everKey = true
		p.Ops = append(p.Ops, Op{Kind: "batch", B: b}, Op{Kind: "mstep"})
		for k := 0; k < 3; k++ {
			p.Ops = append(p.Ops, Op{Kind: "batch", B: g.nextBatch(t)}, Op{Kind: "mstep"})
		}
	}
	if spec.BigBatches && p.Cfg.Backing == "store" && p.Cfg.Compaction >= 1 && len(p.Ops) == 0 && chance(t, "wipebias", 6) {
		// shape that makes a compaction leave nothing: a few hundred entries
		// persisted, then every live key deleted, then the next round(s)
		g.batchNo++
		// (a compaction reserves room for the entries it expects: live + deletions;
		// more than a page of them, i.e. > 255, is the interesting size)
		b := &Batch{}
		wn := rapid.IntRange(100, 420).Draw(t, "wipen")
		for i := 0; i < wn; i++ {
			b.Ops = append(b.Ops, KV{Op: OpSet, K: []byte(fmt.Sprintf("k%04d", i*2)), V: []byte(fmt.Sprintf("w%d.", g.batchNo))})
		}
		g.model.Apply(b)
		g.everKey = true
		p.Ops = append(p.Ops, Op{Kind: "batch", B: b}, Op{Kind: "mstep"})
		if chance(t, "wipemid", 50) {
			p.Ops = append(p.Ops, Op{Kind: "batch", B: g.nextBatch(t)}, Op{Kind: "mstep"})
		}
		g.batchNo++
		w := &Batch{}
		for _, k := range g.model.Keys() {
			w.Ops = append(w.Ops, KV{Op: OpDel, K: []byte(k)})
		}
		g.model.Apply(w)
		p.Ops = append(p.Ops, Op{Kind: "batch", B: w}, Op{Kind: "mstep"}, Op{Kind: "mstep"})
	}
	if spec.Children && !spec.NoChildOnly && len(p.Ops) == 0 && chance(t, "childpile", 5) {
		// shape that leaves an unread, unsorted child segment at the bottom of a
		// stack: deferred sorting, batches of sharply decreasing size for one
		// child within one merger cycle (the merger keeps the big one as it is),
		// keys added in descending order
		p.Cfg.DeferredSort = true
		name := rapid.SampledFrom(childPool[:3]).Draw(t, "pilechild")
		n := rapid.IntRange(16, 80).Draw(t, "pilen")
		base := 0
		for _, sz := range []int{n, n / 6, 1} {
			g.batchNo++
			cb := &Batch{}
			for i := sz - 1; i >= 0; i-- {
				cb.Ops = append(cb.Ops, KV{Op: OpSet, K: []byte(fmt.Sprintf("k%04d", base+i)), V: []byte(fmt.Sprintf("p%d.", g.batchNo))})
			}
			base += sz + 3
			b := &Batch{Children: []ChildBatch{{Name: name, B: cb}}}
			g.model.Apply(b)
			p.Ops = append(p.Ops, Op{Kind: "batch", B: b})
		}
		g.everKey = true
		p.Ops = append(p.Ops, Op{Kind: "mstep"})
	}
	lower := p.Cfg.Backing != "mem"
	nextID := 1
	var snaps, iters []int
	bigLeft := -1
	for i := 0; i < nops; i++ {
		// a limit-sized key or value makes every later step expensive: keep
		// such programs short
		if g.bigSeen && bigLeft < 0 {
			bigLeft = 5
		}
		if bigLeft == 0 {
			break
		}
		if bigLeft > 0 {
			bigLeft--
		}
		wHold, wRel, wReopen, wSnap, wRead, wCloseS, wIter, wIterStep, wSSnap, wEarly := 0, 0, 0, 0, 0, 0, 0, 0, 0, 0
		if spec.Holds && lower {
			wHold, wRel = 7, 9
		}
		if spec.Reopen && p.Cfg.Backing == "store" {
			wReopen = 4
		}
		if spec.EarlyClose && p.Cfg.Backing == "store" {
			wEarly = 4
		}
		if spec.Snapshots {
			wSnap = 10
			if len(snaps) > 0 {
				wRead, wCloseS = 12, 5
				if spec.Iterators {
					wIter = 6
				}
			}
			if len(iters) > 0 {
				wIterStep = 8
			}
			if spec.StoreSnaps && p.Cfg.Backing == "store" {
				wSSnap = 4
			}
		}
		wPNil := 0
		if spec.PersistNil && p.Cfg.Backing == "store" {
			wPNil = 4
		}
		wSPrev := 0
		if wSSnap > 0 && len(snaps) > 0 && len(snaps) < 4 {
			wSPrev = 3
		}
		switch pick(t, "op", 45, 24, wHold, wRel, wReopen, wSnap, wRead, wCloseS, wIter, wIterStep, wSSnap, wEarly, wPNil, wSPrev) {
		case 13:
			// Store.SnapshotPrevious of an open store snapshot (no-op for other
			// kinds of handle): a second handle, the first one stays open
			snaps = append(snaps, nextID)
			p.Ops = append(p.Ops, Op{Kind: "sprev", ID: nextID, Snap: rapid.SampledFrom(snaps[:len(snaps)-1]).Draw(t, "prevof")})
			nextID++
		case 0:
			p.Ops = append(p.Ops, Op{Kind: "batch", B: g.nextBatch(t)})
		case 1:
			p.Ops = append(p.Ops, Op{Kind: "mstep", MKind: mstepKinds[pick(t, "mkind", 60, 25, 15)]})
		case 2:
			p.Ops = append(p.Ops, Op{Kind: "hold", Gate: rapid.SampledFrom(gateKinds).Draw(t, "gate")})
		case 3:
			o := Op{Kind: "prelease"}
			if chance(t, "regate", 25) {
				o.Gate = rapid.SampledFrom(gateKinds).Draw(t, "gate")
			}
			p.Ops = append(p.Ops, o)
		case 4:
			o := Op{Kind: "reopen", Drain: true}
			if spec.ReopenCfg && chance(t, "recfg", 40) {
				nc := genConfig(t, spec)
				o.Cfg = &nc
			}
			if chance(t, "nosettle", 50) {
				o.N = 1 // reopen at once, without waiting for pending unlinks
			}
			p.Ops = append(p.Ops, o)
		case 5:
			if len(snaps) >= 4 {
				continue
			}
			o := Op{Kind: "snap", ID: nextID}
			if spec.Children && chance(t, "childsnap", 25) {
				o.Path = []string{rapid.SampledFrom(childPool[:3]).Draw(t, "cs")}
			}
			snaps = append(snaps, nextID)
			nextID++
			p.Ops = append(p.Ops, o)
		case 6:
			p.Ops = append(p.Ops, Op{Kind: "readsnap", ID: rapid.SampledFrom(snaps).Draw(t, "sid")})
		case 7:
			j := rapid.IntRange(0, len(snaps)-1).Draw(t, "sj")
			p.Ops = append(p.Ops, Op{Kind: "closesnap", ID: snaps[j]})
			snaps = append(snaps[:j], snaps[j+1:]...)
		case 8:
			if len(iters) >= 4 {
				continue
			}
			o := Op{Kind: "iter", ID: nextID, Snap: rapid.SampledFrom(snaps).Draw(t, "isid")}
			if chance(t, "hasS", 40) && len(g.keys) > 0 {
				o.HasS, o.Start = true, g.keys[rapid.IntRange(0, len(g.keys)-1).Draw(t, "sk")]
			}
			if chance(t, "hasE", 40) && len(g.keys) > 0 {
				o.HasE, o.End = true, g.keys[rapid.IntRange(0, len(g.keys)-1).Draw(t, "ek")]
			}
			iters = append(iters, nextID)
			nextID++
			p.Ops = append(p.Ops, o)
			if chance(t, "seekback", 40) {
				// walk forward, then seek back behind the current position (the
				// iterator has to restart), optionally close it right away
				p.Ops = append(p.Ops, Op{Kind: "iternext", ID: o.ID, N: rapid.IntRange(1, 3).Draw(t, "fw")},
					Op{Kind: "iterseek", ID: o.ID, Key: []byte{}})
				if chance(t, "closeafterseek", 50) {
					p.Ops = append(p.Ops, Op{Kind: "closeiter", ID: o.ID})
					iters = iters[:len(iters)-1]
				}
			}
		case 9:
			id := rapid.SampledFrom(iters).Draw(t, "iid")
			switch pick(t, "istep", 50, 25, 25) {
			case 0:
				p.Ops = append(p.Ops, Op{Kind: "iternext", ID: id, N: rapid.IntRange(1, 3).Draw(t, "n")})
			case 1:
				var k []byte
				if len(g.keys) > 0 {
					k = g.keys[rapid.IntRange(0, len(g.keys)-1).Draw(t, "seekk")]
				}
				p.Ops = append(p.Ops, Op{Kind: "iterseek", ID: id, Key: k})
			case 2:
				p.Ops = append(p.Ops, Op{Kind: "closeiter", ID: id})
				for j, x := range iters {
					if x == id {
						iters = append(iters[:j], iters[j+1:]...)
						break
					}
				}
			}
		case 10:
			if len(snaps) >= 4 {
				continue
			}
			snaps = append(snaps, nextID)
			p.Ops = append(p.Ops, Op{Kind: "ssnap", ID: nextID})
			nextID++
		case 12:
			p.Ops = append(p.Ops, Op{Kind: "persistnil"})
		case 11:
			g.everKey = false // an early close may lose everything: the store can be empty again
			o := Op{Kind: "reopen", Drain: false}
			if chance(t, "nosettle", 50) {
				o.N = 1
			}
			p.Ops = append(p.Ops, o)
		}
	}
	if spec.CloseTail && chance(t, "closetail", 70) {
		// close collection and store while handles are open, re-read, then
		// close the remaining handles in a generated order
		tail := []Op{{Kind: "closecoll"}}
		for _, id := range snaps {
			tail = append(tail, Op{Kind: "readsnap", ID: id})
		}
		for _, id := range iters {
			tail = append(tail, Op{Kind: "iternext", ID: id, N: 1})
		}
		if p.Cfg.Backing == "store" {
			tail = append(tail, Op{Kind: "closestore"})
			for _, id := range snaps {
				tail = append(tail, Op{Kind: "readsnap", ID: id})
			}
			for _, id := range iters {
				tail = append(tail, Op{Kind: "iternext", ID: id, N: 1})
			}
		}
		var closers []Op
		for _, id := range snaps {
			closers = append(closers, Op{Kind: "closesnap", ID: id})
		}
		for _, id := range iters {
			closers = append(closers, Op{Kind: "closeiter", ID: id})
		}
		if len(closers) > 1 {
			perm := rapid.Permutation(closers).Draw(t, "closeorder")
			closers = perm
		}
		// sometimes interleave the closes before the collection/store close
		if chance(t, "closefirst", 30) {
			p.Ops = append(p.Ops, closers...)
			p.Ops = append(p.Ops, tail...)
		} else {
			p.Ops = append(p.Ops, tail...)
			p.Ops = append(p.Ops, closers...)
		}
	}
	return p, g.excluded
}

// ---------------------------------------------------------------
// C09: iterator programs

func neighbours(k []byte) [][]byte {
	out := [][]byte{append(append([]byte{}, k...), 0)}
	if len(k) > 0 {
		out = append(out, append([]byte{}, k[:len(k)-1]...))
		p := append([]byte{}, k...)
		if p[len(p)-1] > 0 {
			p[len(p)-1]--
			out = append(out, append(p, 0xff))
		}
		q := append([]byte{}, k...)
		if q[len(q)-1] < 0xff {
			q[len(q)-1]++
			out = append(out, q)
		}
	}
	return out
}

func genProbeKey(t *rapid.T, keys [][]byte, label string) []byte {
	if len(keys) == 0 {
		return rapid.SliceOfN(rapid.Byte(), 0, 4).Draw(t, label)
	}
	k := keys[rapid.IntRange(0, len(keys)-1).Draw(t, label+"i")]
	switch pick(t, label+"k", 50, 35, 15) {
	case 0:
		return k
	case 1:
		nb := neighbours(k)
		return nb[rapid.IntRange(0, len(nb)-1).Draw(t, label+"n")]
	default:
		return rapid.SliceOfN(rapid.Byte(), 0, 6).Draw(t, label+"r")
	}
}

func genIterProgram(t *rapid.T, spec *GenSpec) (*Program, int) {
	p := &Program{Prop: spec.Prop}
	p.Cfg = genConfig(t, spec)
	if p.Cfg.Backing == "ll" && spec.Children {
		sp := *spec
		sp.NoRecreate = true
		spec = &sp
	}
	g := &genState{spec: spec, model: NewNode(), deadKids: map[string]bool{}}
	g.keys = genKeyPool(t, spec.Hostile, 8)
	lower := p.Cfg.Backing != "mem"
	nextID := 1
	rounds := rapid.IntRange(1, 3).Draw(t, "rounds")
	for r := 0; r < rounds; r++ {
		npre := rapid.IntRange(0, 8).Draw(t, "npre")
		for i := 0; i < npre; i++ {
			wHold := 0
			if lower {
				wHold = 6
			}
			switch pick(t, "pre", 55, 30, wHold, wHold) {
			case 0:
				p.Ops = append(p.Ops, Op{Kind: "batch", B: g.nextBatch(t)})
			case 1:
				p.Ops = append(p.Ops, Op{Kind: "mstep", MKind: mstepKinds[pick(t, "mkind", 60, 25, 15)]})
			case 2:
				p.Ops = append(p.Ops, Op{Kind: "hold", Gate: rapid.SampledFrom(gateKinds).Draw(t, "gate")})
			case 3:
				p.Ops = append(p.Ops, Op{Kind: "prelease"})
			}
		}
		sid := nextID
		nextID++
		wStore, wChild := 0, 0
		if p.Cfg.Backing == "store" {
			wStore = 20
		}
		if spec.Children {
			wChild = 20
		}
		switch pick(t, "snapkind", 60, wStore, wChild) {
		case 0:
			p.Ops = append(p.Ops, Op{Kind: "snap", ID: sid})
		case 1:
			p.Ops = append(p.Ops, Op{Kind: "ssnap", ID: sid})
		case 2:
			p.Ops = append(p.Ops, Op{Kind: "snap", ID: sid, Path: []string{rapid.SampledFrom(childPool[:3]).Draw(t, "cs")}, N: rapid.IntRange(0, 1).Draw(t, "keepparent")})
		}
		nit := rapid.IntRange(1, 3).Draw(t, "niters")
		for j := 0; j < nit; j++ {
			iid := nextID
			nextID++
			o := Op{Kind: "iter", ID: iid, Snap: sid}
			switch pick(t, "sb", 40, 50, 10) {
			case 1:
				o.HasS, o.Start = true, genProbeKey(t, g.keys, "start")
			case 2:
				o.HasS, o.Start = true, []byte{}
			}
			switch pick(t, "eb", 40, 50, 10) {
			case 1:
				o.HasE, o.End = true, genProbeKey(t, g.keys, "end")
			case 2:
				o.HasE, o.End = true, []byte{}
			}
			p.Ops = append(p.Ops, o)
			nc := rapid.IntRange(1, 14).Draw(t, "ncalls")
			for c := 0; c < nc; c++ {
				switch pick(t, "call", 40, 45, 15) {
				case 0:
					p.Ops = append(p.Ops, Op{Kind: "iternext", ID: iid, N: rapid.IntRange(1, 3).Draw(t, "n")})
				case 1:
					p.Ops = append(p.Ops, Op{Kind: "iterseek", ID: iid, Key: genProbeKey(t, g.keys, "seek")})
				case 2:
					p.Ops = append(p.Ops, Op{Kind: "itercur", ID: iid})
				}
			}
			if chance(t, "closeit", 70) {
				p.Ops = append(p.Ops, Op{Kind: "closeiter", ID: iid})
			}
		}
		if chance(t, "closesnap", 60) {
			p.Ops = append(p.Ops, Op{Kind: "closesnap", ID: sid})
		}
	}
	return p, g.excluded
}

// ---------------------------------------------------------------
// C14: key sets and index option sets

func genC14Key(t *rapid.T, prefix []byte) []byte {
	switch pick(t, "kfam", 35, 25, 25, 15) {
	case 0:
		return rapid.SliceOfN(rapid.SampledFrom([]byte{'a', 'b', 0x00, 0xff}), 0, 4).Draw(t, "ak")
	case 1:
		return []byte(fmt.Sprintf("k%04d", rapid.IntRange(0, 700).Draw(t, "nk")))
	case 2:
		return append(append([]byte{}, prefix...), rapid.SliceOfN(rapid.ByteRange('a', 'd'), 0, 3).Draw(t, "sfx")...)
	default:
		return rapid.SliceOfN(rapid.Byte(), 0, 30).Draw(t, "rk")
	}
}

func genC14(t *rapid.T) *Program {
	c := C14Case{}
	prefix := rapid.SliceOfN(rapid.ByteRange('p', 'r'), 8, 25).Draw(t, "prefix")
	n := 0
	switch pick(t, "size", 40, 35, 20, 5) {
	case 0:
		n = rapid.IntRange(1, 8).Draw(t, "n")
	case 1:
		n = rapid.IntRange(9, 40).Draw(t, "n")
	case 2:
		n = rapid.IntRange(41, 200).Draw(t, "n")
	case 3:
		n = rapid.IntRange(201, 600).Draw(t, "n")
	}
	seen := map[string]bool{}
	var keys [][]byte
	for i := 0; i < n; i++ {
		k := genC14Key(t, prefix)
		if !seen[string(k)] {
			seen[string(k)] = true
			keys = append(keys, k)
		}
	}
	nseg := rapid.IntRange(1, 3).Draw(t, "nseg")
	c.Segments = make([][]KV, nseg)
	for _, k := range keys {
		placed := false
		for s := 0; s < nseg; s++ {
			if nseg > 1 && !chance(t, "inseg", 55) {
				continue
			}
			placed = true
			if s > 0 && chance(t, "del", 25) {
				c.Segments[s] = append(c.Segments[s], KV{Op: OpDel, K: k})
			} else {
				c.Segments[s] = append(c.Segments[s], KV{Op: OpSet, K: k, V: []byte(fmt.Sprintf("s%d", s))})
			}
		}
		if !placed {
			c.Segments[0] = append(c.Segments[0], KV{Op: OpSet, K: k, V: []byte("s0")})
		}
	}
	c.Compact = chance(t, "compact", 30)
	tot0 := 0
	for _, kv := range c.Segments[0] {
		tot0 += len(kv.K)
	}
	nopt := rapid.IntRange(2, 6).Draw(t, "nopt")
	for i := 0; i < nopt; i++ {
		q := rapid.SampledFrom([]int{8, 12, 16, 24, 32, 48, 64, 100, 200, 1000, 0, -1}).Draw(t, "quota")
		m := 1
		switch pick(t, "minkb", 60, 10, 10, 10, 10) {
		case 1:
			m = tot0 - 1
		case 2:
			m = tot0
		case 3:
			m = tot0 + 1
		case 4:
			m = 0
		}
		if m < 0 {
			m = 1
		}
		c.Opts = append(c.Opts, [2]int{q, m})
	}
	// probes: neighbours of keys + random strings
	np := rapid.IntRange(0, 12).Draw(t, "nprobes")
	for i := 0; i < np; i++ {
		c.Probes = append(c.Probes, genProbeKey(t, keys, "probe"))
	}
	for i, k := range keys {
		if i < 40 || i%7 == 0 {
			c.Probes = append(c.Probes, neighbours(k)...)
		}
	}
	c.Probes = append(c.Probes, []byte{}, []byte{0xff, 0xff, 0xff, 0xff})
	b, _ := json.Marshal(&c)
	return &Program{Prop: "C14", Cfg: Config{Backing: "store"}, Extra: b}
}

// ---------------------------------------------------------------
// C12: history walk / revert programs

func genC12(t *rapid.T, spec *GenSpec) (*Program, int) {
	p := &Program{Prop: "C12"}
	p.Cfg = genConfig(t, spec)
	p.Cfg.Backing = "store"
	g := &genState{spec: spec, model: NewNode(), deadKids: map[string]bool{}}
	g.keys = genKeyPool(t, false, 6)
	n := rapid.IntRange(2, 30).Draw(t, "nops")
	for i := 0; i < n; i++ {
		switch pick(t, "op", 40, 30, 14, 8, 8) {
		case 0:
			p.Ops = append(p.Ops, Op{Kind: "batch", B: g.nextBatch(t)})
		case 1:
			p.Ops = append(p.Ops, Op{Kind: "mstep", MKind: mstepKinds[pick(t, "mkind", 70, 20, 10)]})
		case 2:
			p.Ops = append(p.Ops, Op{Kind: "walk", N: rapid.IntRange(1, 8).Draw(t, "depth")})
		case 3:
			p.Ops = append(p.Ops, Op{Kind: "revert", N: rapid.IntRange(0, 5).Draw(t, "rdepth")})
		case 4:
			p.Ops = append(p.Ops, Op{Kind: "reopen", Drain: true})
		}
	}
	return p, g.excluded
}

// ---------------------------------------------------------------
// C18: read-only programs

func genC18(t *rapid.T, spec *GenSpec) *Program {
	p := &Program{Prop: "C18"}
	p.Cfg = genConfig(t, spec)
	p.Cfg.Backing = "store"
	p.Cfg.KeepFiles = chance(t, "keepFiles", 50)
	g := &genState{spec: spec, model: NewNode(), deadKids: map[string]bool{}}
	g.keys = genKeyPool(t, false, 6)
	n := rapid.IntRange(1, 14).Draw(t, "nops")
	for i := 0; i < n; i++ {
		if pick(t, "op", 60, 40) == 0 {
			p.Ops = append(p.Ops, Op{Kind: "batch", B: g.nextBatch(t)})
		} else {
			p.Ops = append(p.Ops, Op{Kind: "mstep", MKind: mstepKinds[pick(t, "mkind", 60, 20, 20)]})
		}
	}
	x := C18Extra{EarlyClose: chance(t, "early", 25)}
	if x.EarlyClose && spec.NoStructOnlyEmpty {
		// an early close can leave the store empty although key operations were
		// executed (open finding F14e): turn child-only structural batches off
		for i := range p.Ops {
			if p.Ops[i].Kind == "batch" && len(p.Ops[i].B.Children) > 0 && !batchHasKeyOps(p.Ops[i].B) {
				p.Ops[i].B.Ops = []KV{{Op: OpSet, K: []byte("a"), V: []byte("x")}}
			}
		}
	}
	tampers := []string{"junk-empty-newer", "junk-garbage-newer", "junk-header-only-newer", "truncated-copy-newer", "tear-newest", "unrelated-file", "old-named-junk"}
	nt := pick(t, "ntamper", 15, 50, 35)
	for i := 0; i < nt; i++ {
		x.Tamper = append(x.Tamper, rapid.SampledFrom(tampers).Draw(t, "tamper"))
	}
	x.TearBytes = rapid.SampledFrom([]int{1, 10, 30, 100, 4096, 5000}).Draw(t, "tear")
	x.TruncFrac = rapid.IntRange(0, 99).Draw(t, "trunc")
	x.ROCfg = genConfig(t, spec)
	x.ROCfg.Backing = "store"
	x.ROCfg.KeepFiles = chance(t, "roKeepFiles", 50)
	nro := rapid.IntRange(1, 12).Draw(t, "nro")
	for i := 0; i < nro; i++ {
		switch pick(t, "ro", 25, 12, 30, 10, 8, 8, 4, 3) {
		case 0:
			x.RO = append(x.RO, Op{Kind: "read"})
		case 1:
			x.RO = append(x.RO, Op{Kind: "sread"})
		case 2:
			x.RO = append(x.RO, Op{Kind: "batch", B: g.nextBatch(t)})
		case 3:
			x.RO = append(x.RO, Op{Kind: "notify", MKind: mstepKinds[pick(t, "mkind", 40, 30, 30)]})
		case 4:
			x.RO = append(x.RO, Op{Kind: "persist", N: rapid.IntRange(0, 2).Draw(t, "concern")})
		case 5:
			x.RO = append(x.RO, Op{Kind: "prev"})
		case 6:
			x.RO = append(x.RO, Op{Kind: "closecoll"})
		case 7:
			x.RO = append(x.RO, Op{Kind: "closestore"})
		}
	}
	x.RO = append(x.RO, Op{Kind: "read"})
	b, _ := json.Marshal(&x)
	p.Extra = b
	return p
}

// ---------------------------------------------------------------
// C05: crash workloads

func genC05(t *rapid.T, spec *GenSpec) *Program {
	p := &Program{Prop: "C05"}
	p.Cfg = genConfig(t, spec)
	p.Cfg.Backing = "store"
	p.Cfg.KeepFiles = false
	g := &genState{spec: spec, model: NewNode(), deadKids: map[string]bool{}}
	g.keys = genKeyPool(t, spec.Hostile, 8)
	if chance(t, "longappend", 4) {
		// many small append rounds: the footer grows beyond two pages, so a
		// crash can leave it with a missing middle block
		p.Cfg.Compaction = 0
		p.Cfg.NoSync = false
		p.Cfg.MaxPreMergerBatches = 1
		rounds := rapid.IntRange(62, 75).Draw(t, "rounds")
		for i := 0; i < rounds; i++ {
			g.batchNo++
			k := []byte("a")
			if len(g.keys) > 0 {
				k = g.keys[i%len(g.keys)]
			}
			b := &Batch{Ops: []KV{{Op: OpSet, K: k, V: []byte(fmt.Sprintf("v%d.", g.batchNo))}}}
			g.model.Apply(b)
			p.Ops = append(p.Ops, Op{Kind: "batch", B: b}, Op{Kind: "mstep"})
		}
		x := C05Extra{Masks: []uint64{5, 9, 0x55}}
		bx, _ := json.Marshal(&x)
		p.Extra = bx
		return p
	}
	n := rapid.IntRange(1, 16).Draw(t, "nops")
	for i := 0; i < n; i++ {
		switch pick(t, "op", 55, 38, 7, 6) {
		case 0:
			p.Ops = append(p.Ops, Op{Kind: "batch", B: g.nextBatch(t)})
		case 1:
			p.Ops = append(p.Ops, Op{Kind: "mstep", MKind: mstepKinds[pick(t, "mkind", 60, 20, 20)]})
		case 2:
			p.Ops = append(p.Ops, Op{Kind: "reopen", Drain: true})
		case 3:
			p.Ops = append(p.Ops, Op{Kind: "revert", N: rapid.IntRange(0, 3).Draw(t, "rdepth")})
		}
	}
	x := C05Extra{}
	for i := 0; i < 6; i++ {
		x.Masks = append(x.Masks, rapid.Uint64().Draw(t, "mask"))
	}
	for i := 0; i < 3; i++ {
		x.Tears = append(x.Tears, rapid.IntRange(2, 9000).Draw(t, "tear"))
	}
	b, _ := json.Marshal(&x)
	p.Extra = b
	return p
}

// ---------------------------------------------------------------
// concurrent cases (C03, C16, C17)

type ConcSpec struct {
	Prop      string
	Close     bool // generate a Close at a generated point (C16)
	Pollers   bool
	Notifiers bool
	Children  bool
	SlowLL    bool
}

func genConc(t *rapid.T, cs *ConcSpec) *Program {
	p := &Program{Prop: cs.Prop}
	spec := &GenSpec{Prop: cs.Prop, Backings: []string{"mem", "store", "store", "ll"}}
	p.Cfg = genConfig(t, spec)
	p.Cfg.MaxPreMergerBatches = rapid.SampledFrom([]int{1, 2, 3}).Draw(t, "maxPreMerger")
	if p.Cfg.Backing != "mem" && chance(t, "dirtylimits", 35) {
		p.Cfg.MaxDirtyOps = rapid.SampledFrom([]uint64{1, 4, 20}).Draw(t, "maxDirtyOps")
		p.Cfg.MaxDirtyBytes = rapid.SampledFrom([]uint64{0, 16, 200}).Draw(t, "maxDirtyBytes")
	}
	x := ConcExtra{}
	nW := rapid.IntRange(1, 4).Draw(t, "writers")
	for w := 0; w < nW; w++ {
		nb := rapid.IntRange(1, 40).Draw(t, "nbatches")
		pfx := writerPrefix(w)
		nk := rapid.IntRange(1, 5).Draw(t, "nkeys")
		if p.Cfg.DeferredSort && chance(t, "bigbatches", 50) {
			// deferred sorting of a large batch takes long enough for a second
			// reader (or the merger) to meet the sorter
			nk = rapid.IntRange(100, 600).Draw(t, "bignkeys")
			if nb > 8 {
				nb = 8
			}
		}
		var bs []*Batch
		childOnly := cs.Children && chance(t, "childonlywriter", 25)
		for i := 1; i <= nb; i++ {
			if childOnly {
				// this writer never touches the top level: marker and keys live
				// in child collection A (child-only batches)
				cb := &Batch{Ops: []KV{{Op: OpSet, K: markerKey(w), V: []byte(fmt.Sprint(i))}}}
				for k := 0; k < nk; k++ {
					key := []byte(fmt.Sprintf("%sk%d", pfx, k))
					switch pick(t, "wop", 55, 25, 20) {
					case 0:
						cb.Ops = append(cb.Ops, KV{Op: OpSet, K: key, V: []byte(fmt.Sprintf("%d.%d", i, k))})
					case 1:
						cb.Ops = append(cb.Ops, KV{Op: OpDel, K: key})
					}
				}
				bs = append(bs, &Batch{Children: []ChildBatch{{Name: "A", B: cb}}})
				continue
			}
			b := &Batch{Ops: []KV{{Op: OpSet, K: markerKey(w), V: []byte(fmt.Sprint(i))}}}
			for k := 0; k < nk; k++ {
				key := []byte(fmt.Sprintf("%sk%d", pfx, k))
				switch pick(t, "wop", 55, 25, 20) {
				case 0:
					b.Ops = append(b.Ops, KV{Op: OpSet, K: key, V: []byte(fmt.Sprintf("%d.%d", i, k))})
				case 1:
					b.Ops = append(b.Ops, KV{Op: OpDel, K: key})
				}
			}
			if cs.Children && chance(t, "wchild", 40) {
				nc := rapid.IntRange(1, 2).Draw(t, "nchild")
				used := map[string]bool{}
				for c := 0; c < nc; c++ {
					name := rapid.SampledFrom(childPool[:2]).Draw(t, "cname")
					if used[name] {
						continue
					}
					used[name] = true
					cb := &Batch{}
					for k := 0; k < 2; k++ {
						key := []byte(fmt.Sprintf("%sc%d", pfx, k))
						if chance(t, "cset", 70) {
							cb.Ops = append(cb.Ops, KV{Op: OpSet, K: key, V: []byte(fmt.Sprintf("%d.c%d", i, k))})
						} else {
							cb.Ops = append(cb.Ops, KV{Op: OpDel, K: key})
						}
					}
					b.Children = append(b.Children, ChildBatch{Name: name, B: cb})
				}
			}
			bs = append(bs, b)
		}
		x.Writers = append(x.Writers, bs)
	}
	x.Readers = rapid.IntRange(1, 3).Draw(t, "readers")
	x.GetReader = chance(t, "getreader", 60)
	x.Pollers = cs.Pollers
	if cs.Notifiers && chance(t, "notifiers", 60) {
		x.Notifiers = rapid.IntRange(1, 2).Draw(t, "nnotifiers")
	}
	np := rapid.IntRange(0, 8).Draw(t, "nperturb")
	for i := 0; i < np; i++ {
		x.Perturb = append(x.Perturb, rapid.SampledFrom([]int{0, 0, 1, 5, 20, 100}).Draw(t, "perturb"))
	}
	x.Procs = rapid.SampledFrom([]int{16, 4, 2}).Draw(t, "procs")
	if p.Cfg.Backing == "ll" && cs.SlowLL {
		x.LLSlowUs = rapid.SampledFrom([]int{0, 50, 500}).Draw(t, "llslow")
		if chance(t, "llfail", 40) {
			n := rapid.IntRange(1, 6).Draw(t, "nllfail")
			x.LLFail = make([]bool, n)
			for i := range x.LLFail {
				x.LLFail[i] = rapid.Bool().Draw(t, "llf")
			}
		}
		if chance(t, "llstall", 25) {
			x.LLStallMs = rapid.SampledFrom([]int{5, 30}).Draw(t, "llstall")
		}
	}
	if cs.Close {
		tot := 0
		for _, ws := range x.Writers {
			tot += len(ws)
		}
		x.CloseAfter = rapid.IntRange(1, tot).Draw(t, "closeAfter")
	}
	b, _ := json.Marshal(&x)
	p.Extra = b
	return p
}
