package mv

import (
	"bytes"
	"fmt"
	"sort"
	"strings"
)

// Node is the reference model of a collection: an ordered map plus named
// child collections.  Values are always non-nil (an empty value is a
// non-nil empty slice); absent keys are simply absent.
type Node struct {
	KV       map[string][]byte
	Children map[string]*Node
}

func NewNode() *Node {
	return &Node{KV: map[string][]byte{}, Children: map[string]*Node{}}
}

func (n *Node) Clone() *Node {
	c := NewNode()
	for k, v := range n.KV {
		c.KV[k] = append([]byte{}, v...)
	}
	for name, ch := range n.Children {
		c.Children[name] = ch.Clone()
	}
	return c
}

// Keys returns the live keys in ascending byte order.
func (n *Node) Keys() []string {
	ks := make([]string, 0, len(n.KV))
	for k := range n.KV {
		ks = append(ks, k)
	}
	sort.Strings(ks)
	return ks
}

func (n *Node) ChildNames() []string {
	ns := make([]string, 0, len(n.Children))
	for k := range n.Children {
		ns = append(ns, k)
	}
	sort.Strings(ns)
	return ns
}

// At navigates a child path; nil when the path does not exist.
func (n *Node) At(path []string) *Node {
	cur := n
	for _, p := range path {
		if cur == nil {
			return nil
		}
		cur = cur.Children[p]
	}
	return cur
}

// KeepOperand makes the oracle merge operator return its existingValue
// argument unchanged.
const KeepOperand = "="

// MergeFold is the oracle's order- and structure-sensitive merge:
// existing' = "(" + render(existing) + "|" + operand + ")".
func MergeFold(existing []byte, operand []byte) []byte {
	if string(operand) == KeepOperand {
		// the "keep" operand returns the existing value itself (the very
		// slice it was handed), as e.g. a max() operator does
		if existing == nil {
			return []byte{}
		}
		return existing
	}
	var b bytes.Buffer
	b.WriteByte('(')
	if existing == nil {
		b.WriteByte('~')
	} else {
		b.Write(existing)
	}
	b.WriteByte('|')
	b.Write(operand)
	b.WriteByte(')')
	return b.Bytes()
}

// Apply applies one batch to the model (documented semantics).
func (n *Node) Apply(b *Batch) {
	if b == nil {
		return
	}
	for i := range b.Ops {
		op := &b.Ops[i]
		if op.Reject {
			continue // the library must reject this one; it has no effect
		}
		k := string(op.K)
		switch op.Op {
		case OpSet:
			v := op.V
			if v == nil {
				v = []byte{}
			}
			n.KV[k] = append([]byte{}, v...)
		case OpDel:
			delete(n.KV, k)
		case OpMerge:
			ex, ok := n.KV[k]
			if !ok {
				ex = nil
			}
			n.KV[k] = MergeFold(ex, op.V)
		}
	}
	for i := range b.Children {
		cb := &b.Children[i]
		if cb.Del {
			delete(n.Children, cb.Name)
			continue
		}
		ch, ok := n.Children[cb.Name]
		if !ok {
			ch = NewNode()
			n.Children[cb.Name] = ch
		}
		ch.Apply(cb.B)
	}
}

// Equal compares two model trees completely.
func (n *Node) Equal(o *Node) bool {
	return n.Diff(o, "") == ""
}

// Diff returns "" when equal, else a short description of the first
// difference found (n = got, o = want).
func (n *Node) Diff(o *Node, path string) string {
	if n == nil || o == nil {
		if n == nil && o == nil {
			return ""
		}
		return fmt.Sprintf("%s: one side missing (got nil=%v want nil=%v)", path, n == nil, o == nil)
	}
	for k, v := range o.KV {
		g, ok := n.KV[k]
		if !ok {
			return fmt.Sprintf("%s: key %q missing (want %q)", path, k, short(v))
		}
		if !bytes.Equal(g, v) {
			return fmt.Sprintf("%s: key %q = %q, want %q", path, k, short(g), short(v))
		}
	}
	for k, g := range n.KV {
		if _, ok := o.KV[k]; !ok {
			return fmt.Sprintf("%s: unexpected key %q = %q", path, k, short(g))
		}
	}
	for name, oc := range o.Children {
		nc, ok := n.Children[name]
		if !ok {
			return fmt.Sprintf("%s: child %q missing", path, name)
		}
		if d := nc.Diff(oc, path+"/"+name); d != "" {
			return d
		}
	}
	for name := range n.Children {
		if _, ok := o.Children[name]; !ok {
			return fmt.Sprintf("%s: unexpected child %q", path, name)
		}
	}
	return ""
}

func short(b []byte) string {
	if len(b) > 48 {
		return fmt.Sprintf("%s...(%d bytes)", string(b[:40]), len(b))
	}
	return string(b)
}

func (n *Node) String() string {
	var sb strings.Builder
	n.render(&sb)
	return sb.String()
}

func (n *Node) render(sb *strings.Builder) {
	sb.WriteByte('{')
	for i, k := range n.Keys() {
		if i > 0 {
			sb.WriteByte(' ')
		}
		fmt.Fprintf(sb, "%q=%q", k, short(n.KV[k]))
	}
	for _, c := range n.ChildNames() {
		fmt.Fprintf(sb, " <%s>", c)
		n.Children[c].render(sb)
	}
	sb.WriteByte('}')
}

// ModelIter implements the C09 iterator contract over the live keys.
type ModelIter struct {
	keys  []string
	vals  [][]byte
	start []byte
	pos   int
}

// NewModelIter builds an iterator over [start,end): nil bounds are
// unbounded; a non-nil empty end bound means an empty range; a non-nil
// empty start equals nil.
func NewModelIter(n *Node, start, end []byte) *ModelIter {
	it := &ModelIter{start: start}
	for _, k := range n.Keys() {
		kb := []byte(k)
		if start != nil && bytes.Compare(kb, start) < 0 {
			continue
		}
		if end != nil && bytes.Compare(kb, end) >= 0 {
			continue
		}
		it.keys = append(it.keys, k)
		it.vals = append(it.vals, n.KV[k])
	}
	return it
}

func (it *ModelIter) Done() bool { return it.pos >= len(it.keys) }

func (it *ModelIter) Current() (k, v []byte, done bool) {
	if it.Done() {
		return nil, nil, true
	}
	return []byte(it.keys[it.pos]), it.vals[it.pos], false
}

// Next returns done=true when the iterator is (now) exhausted.
func (it *ModelIter) Next() bool {
	if it.pos < len(it.keys) {
		it.pos++
	}
	return it.Done()
}

// SeekTo positions on the least in-range key >= x; returns done.
func (it *ModelIter) SeekTo(x []byte) bool {
	it.pos = sort.Search(len(it.keys), func(i int) bool {
		return bytes.Compare([]byte(it.keys[i]), x) >= 0
	})
	return it.Done()
}
