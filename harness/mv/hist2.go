package mv

import (
	"bytes"
	"fmt"
	"os"
	"path/filepath"
	"runtime/debug"
	"sort"
	"strings"
	"time"

	"github.com/couchbase/moss"
)

func (h *Hist) currentDataFile() string {
	fs := dataFiles(h.Dir)
	if len(fs) == 0 {
		return ""
	}
	return fs[len(fs)-1]
}

func (h *Hist) takeSnap(when string, op Op) {
	if h.closed {
		return
	}
	if _, dup := h.snaps[op.ID]; dup {
		return
	}
	snap, err := h.Coll.Snapshot()
	if err != nil {
		h.Failf("%s: Snapshot: %v", when, err)
	}
	want := h.Model
	kind := "coll"
	for _, name := range op.Path {
		cs, err := snap.ChildCollectionSnapshot(name)
		if err != nil {
			h.Failf("%s: ChildCollectionSnapshot(%q): %v", when, name, err)
		}
		if cs == nil {
			snap.Close()
			return
		}
		if op.N%2 == 0 {
			snap.Close() // the child handle must stand on its own
		} else {
			defer snap.Close()
		}
		snap = cs
		kind = "child"
	}
	// The reference for frozen-ness is the first complete read of the handle
	// itself (whether that equals the model is C01/C11's subject).
	first, rerr := ReadTree(snap)
	if rerr != nil {
		snap.Close()
		h.Failf("%s: first read of a fresh %s snapshot: %v", when, kind, rerr)
	}
	_ = want
	nsrc := 0
	for _, l := range [][]int{h.top, h.mid, h.base, h.clean} {
		if len(l) > 0 {
			nsrc += len(l)
		}
	}
	if h.Persisted > 0 {
		nsrc++
	}
	h.snaps[op.ID] = &snapHandle{snap: snap, want: first, kind: kind, fileAtOpen: h.currentDataFile(), multi: nsrc >= 2}
	h.Label("snap:" + kind)
	if nsrc >= 2 {
		h.Label("snap-multi-source")
	} else {
		h.Label("snap-single-source")
	}
}

func (h *Hist) takeStoreSnap(when string, op Op) {
	if h.Store == nil || h.storeClosed {
		return
	}
	if _, dup := h.snaps[op.ID]; dup {
		return
	}
	snap, err := h.Store.Snapshot()
	if err != nil || snap == nil {
		h.Failf("%s: Store.Snapshot: %v (nil=%v)", when, err, snap == nil)
	}
	want, rerr := ReadTree(snap)
	if rerr != nil {
		snap.Close()
		h.Failf("%s: first read of a fresh store snapshot: %v", when, rerr)
	}
	h.snaps[op.ID] = &snapHandle{snap: snap, want: want, kind: "store", fileAtOpen: h.currentDataFile(), multi: h.DataRounds >= 2}
	h.Label("snap:store")
}

// takeStorePrev opens Store.SnapshotPrevious of an open store snapshot as a
// further handle (frozen at its own first read); the handle it was obtained
// from stays open and keeps being checked.
func (h *Hist) takeStorePrev(when string, op Op) {
	if h.Store == nil || h.storeClosed {
		return
	}
	sh, ok := h.snaps[op.Snap]
	if !ok || sh.kind != "store" {
		return
	}
	if _, dup := h.snaps[op.ID]; dup {
		return
	}
	h.FS.HarnessBegin() // the call reads the file from this goroutine: not a persister operation
	prev, err := h.Store.SnapshotPrevious(sh.snap)
	h.FS.HarnessEnd()
	if err != nil {
		h.Failf("%s: Store.SnapshotPrevious of open store snapshot #%d: %v", when, op.Snap, err)
	}
	h.Label("snap:store-previous-call")
	if prev == nil {
		return
	}
	want, rerr := ReadTree(prev)
	if rerr != nil {
		prev.Close()
		h.Failf("%s: first read of the snapshot returned by SnapshotPrevious(#%d): %v", when, op.Snap, rerr)
	}
	h.snaps[op.ID] = &snapHandle{snap: prev, want: want, kind: "store", fileAtOpen: sh.fileAtOpen, multi: sh.multi}
	h.Label("snap:store-previous")
}

func (h *Hist) readSnap(when string, id int) {
	sh, ok := h.snaps[id]
	if !ok {
		return
	}
	if d := CompareSnapshot(sh.snap, sh.want, h.readOpts(), "snap#"+fmt.Sprint(id)); d != "" {
		h.Failf("%s: %s snapshot #%d no longer returns the content it was taken with (later change=%v merger=%v round=%v compaction=%v collClosed=%v storeClosed=%v): %s",
			when, sh.kind, id, sh.laterChange, sh.mstep, sh.round, sh.compact, sh.collClosed, sh.storeClosed, d)
	}
	gone := sh.fileAtOpen != "" && !fileExists(filepath.Join(h.Dir, sh.fileAtOpen))
	if sh.laterChange && (sh.mstep || sh.round || sh.compact || sh.collClosed || sh.storeClosed) {
		h.Nontriv = true
		h.Label("frozen-reread")
	}
	if sh.laterChange {
		if sh.mstep {
			h.Label("reread-after:merger")
		}
		if sh.round {
			h.Label("reread-after:round")
		}
		if sh.compact {
			h.Label("reread-after:compaction")
		}
		if gone {
			h.Label("reread-after:file-removed")
		}
		if sh.collClosed {
			h.Label("reread-after:coll-close")
		}
		if sh.storeClosed {
			h.Label("reread-after:store-close")
		}
	}
}

func fileExists(p string) bool {
	_, err := os.Stat(p)
	return err == nil
}

func bound(has bool, b []byte) []byte {
	if !has {
		return nil
	}
	if b == nil {
		return []byte{}
	}
	return b
}

func (h *Hist) openIter(when string, op Op) {
	sh, ok := h.snaps[op.Snap]
	if !ok {
		return
	}
	if _, dup := h.iters[op.ID]; dup {
		return
	}
	s, e := bound(op.HasS, op.Start), bound(op.HasE, op.End)
	it, err := sh.snap.StartIterator(s, e, moss.IteratorOptions{})
	if err != nil || it == nil {
		h.Failf("%s: StartIterator: %v (nil=%v)", when, err, it == nil)
	}
	ih := &iterHandle{it: it, mi: NewModelIter(sh.want, s, e), snap: op.Snap, multi: sh.multi}
	if len(s) > 0 && len(e) > 0 && s[0] == e[0] {
		h.Label("bounds-share-prefix")
		ih.hard = true
	}
	if s != nil && e != nil && bytes.Compare(s, e) >= 0 {
		h.Label("bounds-empty-or-inverted")
	}
	h.iters[op.ID] = ih
	h.compareIter(when, ih, nil)
	h.Label("iter-open")
}

// compareIter checks Current() against the model iterator; callErr is the
// error the preceding Next/SeekTo returned (nil if none was made).
func (h *Hist) compareIter(when string, ih *iterHandle, callErr error) {
	defer func() {
		if r := recover(); r != nil {
			h.Failf("%s: fault while reading iterator: %v", when, r)
		}
	}()
	old := debug.SetPanicOnFault(true)
	defer debug.SetPanicOnFault(old)
	wk, wv, done := ih.mi.Current()
	k, v, err := ih.it.Current()
	if done {
		if err != moss.ErrIteratorDone {
			h.Failf("%s: iterator should be done, Current = %q=%q err=%v", when, k, short(v), err)
		}
		return
	}
	if err != nil {
		h.Failf("%s: iterator Current err=%v, want %q=%q", when, err, wk, short(wv))
	}
	if !bytes.Equal(k, wk) || v == nil || !bytes.Equal(v, wv) {
		h.Failf("%s: iterator at %q=%q (nil=%v), want %q=%q", when, k, short(v), v == nil, wk, short(wv))
	}
}

func (h *Hist) iterNext(when string, op Op) {
	ih, ok := h.iters[op.ID]
	if !ok {
		return
	}
	n := op.N
	if n <= 0 {
		n = 1
	}
	for j := 0; j < n; j++ {
		done := ih.mi.Next()
		err := ih.it.Next()
		if done != (err == moss.ErrIteratorDone) || (err != nil && err != moss.ErrIteratorDone) {
			h.Failf("%s: Next returned %v, model done=%v", when, err, done)
		}
		h.compareIter(when, ih, err)
	}
	h.Label("iter-step")
}

func (h *Hist) iterSeek(when string, op Op) {
	ih, ok := h.iters[op.ID]
	if !ok {
		return
	}
	k := op.Key
	if k == nil {
		k = []byte{}
	}
	ck, _, wasDone := ih.mi.Current()
	if wasDone {
		h.Label("seek-after-exhaustion")
		ih.hard = true
	} else if bytes.Compare(k, ck) < 0 {
		h.Label("seek-backward")
		ih.hard = true
	}
	if ih.hard && ih.multi {
		h.Nontriv = true
		h.Label("c09-nontrivial")
	}
	done := ih.mi.SeekTo(k)
	err := ih.it.SeekTo(k)
	if done != (err == moss.ErrIteratorDone) || (err != nil && err != moss.ErrIteratorDone) {
		h.Failf("%s: SeekTo(%q) returned %v, model done=%v", when, k, err, done)
	}
	h.compareIter(when, ih, err)
	h.Label("iter-seek")
}

// ---------------------------------------------------------------
// C10: all read paths agree

type retainedVal struct {
	key  []byte
	got  []byte
	want []byte
}

func (h *Hist) checkReadPaths(when string) {
	snap, err := h.Coll.Snapshot()
	if err != nil {
		h.Failf("%s: Snapshot: %v", when, err)
	}
	defer snap.Close()
	// iteration view
	iterView := map[string][]byte{}
	it, err := snap.StartIterator(nil, nil, moss.IteratorOptions{})
	if err != nil || it == nil {
		h.Failf("%s: StartIterator: %v", when, err)
	}
	for {
		k, v, err := it.Current()
		if err == moss.ErrIteratorDone {
			break
		}
		if err != nil {
			it.Close()
			h.Failf("%s: iterator: %v", when, err)
		}
		if v == nil {
			it.Close()
			h.Failf("%s: iteration yields nil value for %q", when, k)
		}
		iterView[string(k)] = append([]byte{}, v...)
		if err := it.Next(); err != nil {
			if err != moss.ErrIteratorDone {
				it.Close()
				h.Failf("%s: iterator Next: %v", when, err)
			}
			break
		}
	}
	it.Close()
	keys := map[string]bool{}
	for _, k := range h.universe {
		keys[string(k)] = true
	}
	for k := range iterView {
		keys[k] = true
	}
	for k := range h.Model.KV {
		keys[k] = true
	}
	// a sixth read path: position an iterator with SeekTo (ascending keys are
	// forward seeks; every third key seeks back to the start first)
	seekView := map[string][]byte{}
	{
		ks := make([]string, 0, len(keys))
		for k := range keys {
			ks = append(ks, k)
		}
		sort.Strings(ks)
		sit, err := snap.StartIterator(nil, nil, moss.IteratorOptions{})
		if err != nil || sit == nil {
			h.Failf("%s: StartIterator: %v", when, err)
		}
		for i, k := range ks {
			if i%3 == 2 {
				if err := sit.SeekTo([]byte{}); err != nil && err != moss.ErrIteratorDone {
					sit.Close()
					h.Failf("%s: SeekTo(\"\"): %v", when, err)
				}
			}
			err := sit.SeekTo([]byte(k))
			if err == moss.ErrIteratorDone {
				continue
			}
			if err != nil {
				sit.Close()
				h.Failf("%s: SeekTo(%q): %v", when, k, err)
			}
			ck, cv, err := sit.Current()
			if err == nil && string(ck) == k {
				if cv == nil {
					sit.Close()
					h.Failf("%s: SeekTo(%q) lands on the key with a nil value", when, k)
				}
				seekView[k] = append([]byte{}, cv...)
			} else if err == nil && ck == nil {
				sit.Close()
				h.Failf("%s: after SeekTo(%q) Current returns a nil key without ErrIteratorDone", when, k)
			}
		}
		sit.Close()
	}
	render := func(v []byte) string {
		if v == nil {
			return "nil"
		}
		return fmt.Sprintf("%q", short(v))
	}
	for ks := range keys {
		k := []byte(ks)
		var obs [6][]byte
		var names = [6]string{"Collection.Get", "Collection.Get(NoCopyValue)", "Snapshot.Get", "Snapshot.Get(NoCopyValue)", "iteration", "iterator SeekTo"}
		var e [4]error
		obs[0], e[0] = h.Coll.Get(k, moss.ReadOptions{})
		obs[1], e[1] = h.Coll.Get(k, moss.ReadOptions{NoCopyValue: true})
		obs[2], e[2] = snap.Get(k, moss.ReadOptions{})
		obs[3], e[3] = snap.Get(k, moss.ReadOptions{NoCopyValue: true})
		for i, er := range e {
			if er != nil {
				h.Failf("%s: %s(%q): %v", when, names[i], k, er)
			}
		}
		obs[4] = iterView[ks]
		obs[5] = seekView[ks]
		for i := 1; i < 6; i++ {
			if (obs[i] == nil) != (obs[0] == nil) || !bytes.Equal(obs[i], obs[0]) {
				mv, ok := h.Model.KV[ks]
				ms := "absent"
				if ok {
					ms = fmt.Sprintf("%q", short(mv))
				}
				h.Failf("%s: read paths disagree on key %q: %s=%s but %s=%s (all: %s %s %s %s %s %s; reference: %s)",
					when, k, names[0], render(obs[0]), names[i], render(obs[i]),
					render(obs[0]), render(obs[1]), render(obs[2]), render(obs[3]), render(obs[4]), render(obs[5]), ms)
			}
		}
		if obs[0] != nil && len(h.retainedVals) < 64 {
			h.retainedVals = append(h.retainedVals, retainedVal{key: k, got: obs[0], want: append([]byte{}, obs[0]...)})
			h.retainedVals = append(h.retainedVals, retainedVal{key: k, got: obs[2], want: append([]byte{}, obs[2]...)})
		}
	}
}

func (h *Hist) checkRetained(when string) {
	defer func() {
		if r := recover(); r != nil {
			h.Failf("%s: fault while re-reading a value returned by a copying Get: %v", when, r)
		}
	}()
	old := debug.SetPanicOnFault(true)
	defer debug.SetPanicOnFault(old)
	for _, rv := range h.retainedVals {
		if !bytes.Equal(rv.got, rv.want) {
			h.Failf("%s: value returned by a copying Get for key %q changed after close: %q, was %q", when, rv.key, short(rv.got), short(rv.want))
		}
	}
}

// ---------------------------------------------------------------
// C20: gauges

func (h *Hist) checkGauges(when string, i int) {
	if h.closed {
		return
	}
	st := h.stats()
	zero := st.CurDirtyOps == 0 && st.CurDirtyBytes == 0 && st.CurDirtySegments == 0
	if !zero {
		return
	}
	n := len(h.States) - 1
	fresh := n > h.lastZero
	h.lastZero = n
	h.Label("gauges-zero")
	if fresh {
		h.Nontriv = true
		h.Label("gauges-zero-after-new-batches")
	}
	// the lower level must hold every executed batch
	switch h.Cfg.Backing {
	case "store":
		snap, err := h.Store.Snapshot()
		if err != nil || snap == nil {
			h.Failf("%s: Store.Snapshot: %v", when, err)
		}
		d := CompareSnapshot(snap, h.Model, h.storeReadOpts(), "store")
		snap.Close()
		if d != "" {
			h.Failf("%s: dirty gauges are all zero but the store does not contain every executed batch (%d batches): %s", when, n, d)
		}
		if fresh && h.pState == pIdle && h.gaugeCopies < 3 {
			h.gaugeCopies++
			h.reopenCopy(when, h.Model, "dirty gauges are all zero but a close+reopen at this moment loses data")
		}
	case "ll":
		if d := h.LL.Root().Diff(h.Model, "ll"); d != "" {
			h.Failf("%s: dirty gauges are all zero but the lower level does not contain every executed batch (%d batches): %s", when, n, d)
		}
	}
}

// reopenCopy copies the directory and opens the copy with default options;
// its content must equal want.
func (h *Hist) reopenCopy(when string, want *Node, what string) {
	cp := h.Dir + ".copy"
	os.RemoveAll(cp)
	if err := copyDir(h.Dir, cp); err != nil {
		h.Failf("copyDir: %v", err)
	}
	defer os.RemoveAll(cp)
	so := moss.StoreOptions{}
	if h.Cfg.MergeOp {
		so.CollectionOptions.MergeOperator = h.mergeOp
	}
	s, c, err := moss.OpenStoreCollection(cp, so, moss.StorePersistOptions{})
	if err != nil {
		h.Failf("%s: %s: reopening a copy of the directory fails: %v [%s]", when, what, err, dirListing(cp))
	}
	snap, err := c.Snapshot()
	if err != nil {
		c.Close()
		s.Close()
		h.Failf("%s: Snapshot of reopened copy: %v", when, err)
	}
	d := CompareSnapshot(snap, want, h.storeReadOpts(), "reopened-copy")
	snap.Close()
	c.Close()
	s.Close()
	if d != "" {
		h.Failf("%s: %s: %s", when, what, d)
	}
}

func copyDir(src, dst string) error {
	if err := os.MkdirAll(dst, 0700); err != nil {
		return err
	}
	ents, err := os.ReadDir(src)
	if err != nil {
		return err
	}
	for _, e := range ents {
		if e.IsDir() {
			continue
		}
		b, err := os.ReadFile(filepath.Join(src, e.Name()))
		if err != nil {
			if os.IsNotExist(err) {
				continue // unlinked meanwhile
			}
			return err
		}
		if err := os.WriteFile(filepath.Join(dst, e.Name()), b, 0600); err != nil {
			return err
		}
	}
	return nil
}

// ---------------------------------------------------------------
// C07: after a full compaction

func noDeletionsOneSegment(snap moss.Snapshot, path string) string {
	it, err := snap.StartIterator(nil, nil, moss.IteratorOptions{IncludeDeletions: true})
	if err != nil || it == nil {
		return fmt.Sprintf("%s: StartIterator(IncludeDeletions): %v", path, err)
	}
	var prev []byte
	first := true
	for {
		ex, k, _, err := it.CurrentEx()
		if err == moss.ErrIteratorDone {
			break
		}
		if err != nil {
			it.Close()
			return fmt.Sprintf("%s: CurrentEx: %v", path, err)
		}
		if ex.Operation == moss.OperationDel {
			it.Close()
			return fmt.Sprintf("%s: deletion marker for key %q survives a full compaction", path, k)
		}
		if ex.Operation != moss.OperationSet {
			it.Close()
			return fmt.Sprintf("%s: entry %q has operation %x after a full compaction", path, k, ex.Operation)
		}
		if !first && bytes.Compare(prev, k) >= 0 {
			it.Close()
			return fmt.Sprintf("%s: key %q not strictly after %q after a full compaction", path, k, prev)
		}
		prev = append(prev[:0], k...)
		first = false
		if err := it.Next(); err != nil {
			break
		}
	}
	it.Close()
	// more than one segment? entries from segment level >= 1 would show up
	it2, err := snap.StartIterator(nil, nil, moss.IteratorOptions{IncludeDeletions: true, MinSegmentLevel: 1})
	if err == nil && it2 != nil {
		_, k, _, err := it2.CurrentEx()
		it2.Close()
		if err == nil {
			return fmt.Sprintf("%s: more than one segment after a full compaction (entry %q found above the lowest segment)", path, k)
		}
	}
	names, _ := snap.ChildCollectionNames()
	for _, name := range names {
		cs, err := snap.ChildCollectionSnapshot(name)
		if err != nil || cs == nil {
			continue
		}
		d := noDeletionsOneSegment(cs, path+"/"+name)
		cs.Close()
		if d != "" {
			return d
		}
	}
	return ""
}

func (h *Hist) afterFullCompaction() {
	snap, err := h.Store.Snapshot()
	if err != nil || snap == nil {
		h.Failf("Store.Snapshot after compaction: %v", err)
	}
	defer snap.Close()
	if d := noDeletionsOneSegment(snap, "store"); d != "" {
		h.Failf("after a full compaction: %s", d)
	}
	st, _ := h.Store.Stats()
	if ns := storeStatU(st, "num_segments"); ns > 1 {
		h.Failf("after a full compaction the store reports %d segments", ns)
	}
}

// ---------------------------------------------------------------
// C15: resource accounting after everything is closed

func openFDsUnder(dir string) []string {
	var out []string
	ents, err := os.ReadDir("/proc/self/fd")
	if err != nil {
		return nil
	}
	for _, e := range ents {
		l, err := os.Readlink("/proc/self/fd/" + e.Name())
		if err == nil && strings.HasPrefix(l, dir+"/") {
			out = append(out, l)
		}
	}
	return out
}

func mappingsUnder(dir string) []string {
	b, err := os.ReadFile("/proc/self/maps")
	if err != nil {
		return nil
	}
	var out []string
	for _, line := range strings.Split(string(b), "\n") {
		if strings.Contains(line, dir+"/") {
			out = append(out, line)
		}
	}
	return out
}

// CheckReleased: after every handle, the collection and the store are
// closed nothing of the directory may be open or mapped, and the directory
// holds only the current data file.
func (h *Hist) CheckReleased(when string) {
	dl := time.Now().Add(3 * time.Second)
	for {
		fds, maps := openFDsUnder(h.Dir), mappingsUnder(h.Dir)
		files := dataFiles(h.Dir)
		okDir := h.Cfg.KeepFiles || len(files) <= 1
		if len(fds) == 0 && len(maps) == 0 && okDir {
			return
		}
		if time.Now().After(dl) {
			if len(fds) > 0 {
				h.Failf("%s: after closing every handle, the collection and the store, %d file descriptor(s) of the store directory are still open: %v", when, len(fds), fds)
			}
			if len(maps) > 0 {
				h.Failf("%s: after closing every handle, the collection and the store, %d memory mapping(s) of the store directory remain", when, len(maps))
			}
			h.Failf("%s: after closing everything the directory still holds %d data files: %v", when, len(files), files)
		}
		time.Sleep(time.Millisecond)
	}
}
