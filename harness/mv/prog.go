package mv

import (
	"bytes"
	"crypto/sha256"
	"encoding/hex"
	"encoding/json"
	"fmt"
	"os"
	"strings"
)

const (
	OpSet   = "s"
	OpDel   = "d"
	OpMerge = "m"
)

// KV is one mutation of a batch.
type KV struct {
	Op     string `json:"op"`
	K      []byte `json:"k"`
	V      []byte `json:"v,omitempty"`
	Alloc  bool   `json:"alloc,omitempty"`  // build through Alloc/AllocSet/...
	Reject bool   `json:"reject,omitempty"` // oversize: the library must reject it
}

// kvJSON is the serialised form: byte strings longer than 64 KiB that are a
// repetition of one byte are stored as {fill, len}.
type kvJSON struct {
	Op     string `json:"op"`
	K      []byte `json:"k,omitempty"`
	V      []byte `json:"v,omitempty"`
	KFill  *int   `json:"kfill,omitempty"`
	KLen   int    `json:"klen,omitempty"`
	VFill  *int   `json:"vfill,omitempty"`
	VLen   int    `json:"vlen,omitempty"`
	Alloc  bool   `json:"alloc,omitempty"`
	Reject bool   `json:"reject,omitempty"`
}

func uniform(b []byte) (int, bool) {
	if len(b) < 1<<16 {
		return 0, false
	}
	for _, x := range b {
		if x != b[0] {
			return 0, false
		}
	}
	return int(b[0]), true
}

func (kv KV) MarshalJSON() ([]byte, error) {
	j := kvJSON{Op: kv.Op, K: kv.K, V: kv.V, Alloc: kv.Alloc, Reject: kv.Reject}
	if f, ok := uniform(kv.K); ok {
		j.K, j.KFill, j.KLen = nil, &f, len(kv.K)
	}
	if f, ok := uniform(kv.V); ok {
		j.V, j.VFill, j.VLen = nil, &f, len(kv.V)
	}
	return json.Marshal(&j)
}

func (kv *KV) UnmarshalJSON(b []byte) error {
	var j kvJSON
	if err := json.Unmarshal(b, &j); err != nil {
		return err
	}
	*kv = KV{Op: j.Op, K: j.K, V: j.V, Alloc: j.Alloc, Reject: j.Reject}
	if j.KFill != nil {
		kv.K = bytes.Repeat([]byte{byte(*j.KFill)}, j.KLen)
	}
	if j.VFill != nil {
		kv.V = bytes.Repeat([]byte{byte(*j.VFill)}, j.VLen)
	}
	if kv.K == nil {
		kv.K = []byte{}
	}
	return nil
}

// Batch is a plain-data batch: unique keys per level, each child name
// mentioned at most once per level.
type Batch struct {
	Ops      []KV         `json:"ops,omitempty"`
	Children []ChildBatch `json:"children,omitempty"`
}

type ChildBatch struct {
	Name string `json:"name"`
	Del  bool   `json:"del,omitempty"`
	B    *Batch `json:"b,omitempty"`
}

// NumOps counts key operations at all levels.
func (b *Batch) NumOps() int {
	if b == nil {
		return 0
	}
	n := len(b.Ops)
	for i := range b.Children {
		n += b.Children[i].B.NumOps()
	}
	return n
}

// HasChildren reports whether the batch mentions any child collection.
func (b *Batch) HasChildren() bool { return b != nil && len(b.Children) > 0 }

// Config is the generated configuration of a case.
type Config struct {
	Backing string `json:"backing"` // "mem" | "store" | "ll"

	MinMergePct         float64 `json:"minMergePct,omitempty"`
	DeferredSort        bool    `json:"deferredSort,omitempty"`
	SparseReads         bool    `json:"sparseReads,omitempty"` // harness: read only every 5th step (reads sort deferred segments)
	CachePersisted      bool    `json:"cachePersisted,omitempty"`
	MaxPreMergerBatches int     `json:"maxPreMerger,omitempty"`
	MergeOp             bool    `json:"mergeOp,omitempty"`
	MaxDirtyOps         uint64  `json:"maxDirtyOps,omitempty"`
	MaxDirtyBytes       uint64  `json:"maxDirtyBytes,omitempty"`

	Compaction      int     `json:"compaction,omitempty"` // 0 disable 1 allow 2 force
	LevelMaxSegs    int     `json:"levelMaxSegs,omitempty"`
	LevelMultiplier int     `json:"levelMult,omitempty"`
	CompactionPct   float64 `json:"compactionPct,omitempty"`
	BufferPages     int     `json:"bufferPages,omitempty"`
	CompactionSync  bool    `json:"compactionSync,omitempty"`
	SyncAfterBytes  int     `json:"syncAfterBytes,omitempty"`
	NoSync          bool    `json:"noSync,omitempty"`
	IdxMaxBytes     int     `json:"idxMaxBytes,omitempty"`
	IdxMinKeyBytes  int     `json:"idxMinKeyBytes,omitempty"`
	KeepFiles       bool    `json:"keepFiles,omitempty"`
}

// Op is one step of a generated history.
type Op struct {
	Kind string `json:"kind"`

	B *Batch `json:"b,omitempty"` // batch

	MKind string `json:"mkind,omitempty"` // merger step ping kind
	Gate  string `json:"gate,omitempty"`  // hold: which persister gate
	Drain bool   `json:"drain,omitempty"` // reopen/close: catch up first

	ID    int      `json:"id,omitempty"`   // handle id (snapshots, iterators)
	Snap  int      `json:"snap,omitempty"` // iterator: snapshot id
	Path  []string `json:"path,omitempty"` // child path
	Start []byte   `json:"start,omitempty"`
	End   []byte   `json:"end,omitempty"`
	HasS  bool     `json:"hasS,omitempty"` // start bound is non-nil
	HasE  bool     `json:"hasE,omitempty"` // end bound is non-nil
	Key   []byte   `json:"key,omitempty"`  // seek target
	N     int      `json:"n,omitempty"`    // generic count / depth / index

	Cfg *Config `json:"cfg,omitempty"` // reopen with different options
}

// Program is the replayable unit: a configuration and a history.
type Program struct {
	Prop string `json:"prop"`
	Cfg  Config `json:"cfg"`
	Ops  []Op   `json:"ops"`
	// Extra carries property-specific plain data (key sets, probe lists...).
	Extra json.RawMessage `json:"extra,omitempty"`
}

func (p *Program) JSON() []byte {
	b, err := json.Marshal(p)
	if err != nil {
		panic(err)
	}
	return b
}

func (p *Program) Hash() string {
	h := sha256.Sum256(p.JSON())
	return hex.EncodeToString(h[:8])
}

func LoadProgram(path string) (*Program, error) {
	b, err := os.ReadFile(path)
	if err != nil {
		return nil, err
	}
	p := &Program{}
	if err := json.Unmarshal(b, p); err != nil {
		return nil, err
	}
	return p, nil
}

// ---- compact rendering for evidence samples and failure reports ----

func (kv KV) String() string {
	a := ""
	if kv.Alloc {
		a = "^"
	}
	switch kv.Op {
	case OpDel:
		return fmt.Sprintf("%sD(%s)", a, shortq(kv.K))
	case OpMerge:
		return fmt.Sprintf("%sM(%s,%s)", a, shortq(kv.K), shortq(kv.V))
	}
	r := ""
	if kv.Reject {
		r = "!"
	}
	return fmt.Sprintf("%s%sS(%s,%s)", r, a, shortq(kv.K), shortq(kv.V))
}

func shortq(b []byte) string {
	if len(b) > 24 {
		return fmt.Sprintf("%q..[%d]", b[:12], len(b))
	}
	return fmt.Sprintf("%q", b)
}

func (b *Batch) String() string {
	if b == nil {
		return "[]"
	}
	var sb strings.Builder
	sb.WriteByte('[')
	for i, kv := range b.Ops {
		if i > 0 {
			sb.WriteByte(' ')
		}
		if i >= 8 {
			fmt.Fprintf(&sb, "...+%d", len(b.Ops)-i)
			break
		}
		sb.WriteString(kv.String())
	}
	for _, c := range b.Children {
		if c.Del {
			fmt.Fprintf(&sb, " -<%s>", c.Name)
		} else {
			fmt.Fprintf(&sb, " <%s>%s", c.Name, c.B.String())
		}
	}
	sb.WriteByte(']')
	return sb.String()
}

func (o Op) String() string {
	switch o.Kind {
	case "batch":
		return "batch" + o.B.String()
	case "mstep":
		if o.MKind == "" {
			return "mstep"
		}
		return "mstep(" + o.MKind + ")"
	case "hold":
		return "hold(" + o.Gate + ")"
	case "reopen", "close":
		if o.Drain {
			return o.Kind + "(drain)"
		}
		return o.Kind + "(early)"
	case "snap", "ssnap":
		return fmt.Sprintf("%s#%d%v", o.Kind, o.ID, o.Path)
	case "sprev":
		return fmt.Sprintf("sprev#%d(of #%d)", o.ID, o.Snap)
	case "readsnap", "closesnap", "closeiter", "iternext", "itercur":
		return fmt.Sprintf("%s#%d", o.Kind, o.ID)
	case "iter":
		s, e := "nil", "nil"
		if o.HasS {
			s = shortq(o.Start)
		}
		if o.HasE {
			e = shortq(o.End)
		}
		return fmt.Sprintf("iter#%d(snap#%d,[%s,%s))", o.ID, o.Snap, s, e)
	case "iterseek":
		return fmt.Sprintf("iterseek#%d(%s)", o.ID, shortq(o.Key))
	case "next", "cur":
		return o.Kind
	case "seek":
		return "seek(" + shortq(o.Key) + ")"
	}
	if o.N != 0 {
		return fmt.Sprintf("%s(%d)", o.Kind, o.N)
	}
	return o.Kind
}

func (c Config) String() string {
	b, _ := json.Marshal(c)
	return string(b)
}

// Compact renders a program on one line (truncated) for evidence samples.
func (p *Program) Compact() string {
	var sb strings.Builder
	sb.WriteString(p.Cfg.String())
	sb.WriteString(" :: ")
	for i, o := range p.Ops {
		if i > 0 {
			sb.WriteString("; ")
		}
		if sb.Len() > 1500 {
			fmt.Fprintf(&sb, "...+%d ops", len(p.Ops)-i)
			break
		}
		sb.WriteString(o.String())
	}
	return sb.String()
}
