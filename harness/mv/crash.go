package mv

import (
	"bytes"
	"crypto/sha256"
	"encoding/json"
	"fmt"
	"os"
	"path/filepath"
	"runtime/debug"
	"sort"
	"strconv"
	"strings"

	"github.com/couchbase/moss"
)

const blockSize = 4096

type piece struct {
	off  int64
	data []byte
}

type fileSim struct {
	exists  bool
	durable []byte  // content as of the last completed sync
	current []byte  // content with every completed operation applied
	pending []piece // block pieces written since the last completed sync
}

func applyAt(buf []byte, off int64, data []byte) []byte {
	end := int(off) + len(data)
	if end > len(buf) {
		nb := make([]byte, end)
		copy(nb, buf)
		buf = nb
	}
	copy(buf[off:], data)
	return buf
}

// splitBlocks cuts a write into the pieces that fall into distinct
// 4096-byte aligned blocks.
func splitBlocks(off int64, data []byte) []piece {
	var out []piece
	for len(data) > 0 {
		n := blockSize - int(off%blockSize)
		if n > len(data) {
			n = len(data)
		}
		out = append(out, piece{off: off, data: data[:n]})
		off += int64(n)
		data = data[n:]
	}
	return out
}

// C05Extra carries the generated subset masks for large pending sets.
type C05Extra struct {
	Masks []uint64 `json:"masks,omitempty"`
	Tears []int    `json:"tears,omitempty"`
}

type crashStats struct {
	images      int
	distinct    int
	insideRound int // distinct images taken strictly inside a round / compaction with an earlier durable round
	labels      map[string]int
	failures    map[string]string // signature -> first message
	samples     []string
}

type crashSim struct {
	t       TB
	p       *Program
	trace   []TraceOp
	states  []*Node
	noSync  bool
	extra   C05Extra
	imgRoot string
	seen    map[[32]byte]bool
	st      *crashStats
	mergeOp *verifMergeOp
}

// imageFiles: name -> content
type image map[string][]byte

func (im image) hash() [32]byte {
	names := make([]string, 0, len(im))
	for n := range im {
		names = append(names, n)
	}
	sort.Strings(names)
	h := sha256.New()
	for _, n := range names {
		fmt.Fprintf(h, "%s:%d:", n, len(im[n]))
		h.Write(im[n])
	}
	var out [32]byte
	copy(out[:], h.Sum(nil))
	return out
}

// openImage materializes an image and reads it back through moss.
func (cs *crashSim) openImage(im image, readOnly bool) (tree *Node, err error, panicked interface{}) {
	dir := filepath.Join(cs.imgRoot, "img")
	os.RemoveAll(dir)
	os.MkdirAll(dir, 0700)
	defer os.RemoveAll(dir)
	for n, b := range im {
		if err := os.WriteFile(filepath.Join(dir, n), b, 0600); err != nil {
			return nil, err, nil
		}
	}
	defer func() {
		if r := recover(); r != nil {
			panicked = r
		}
	}()
	old := debug.SetPanicOnFault(true)
	defer debug.SetPanicOnFault(old)
	so := moss.StoreOptions{}
	so.CollectionOptions.MergeOperator = cs.mergeOp
	so.CollectionOptions.ReadOnly = readOnly
	s, c, err := moss.OpenStoreCollection(dir, so, moss.StorePersistOptions{})
	if err != nil {
		return nil, err, nil
	}
	defer s.Close()
	defer c.Close()
	snap, err := c.Snapshot()
	if err != nil {
		return nil, err, nil
	}
	defer snap.Close()
	tree, err = ReadTree(snap)
	return tree, err, nil
}

func (cs *crashSim) fail(sig, msg string) {
	if _, ok := cs.st.failures[sig]; !ok {
		cs.st.failures[sig] = msg
	}
}

// evalImage checks one crash image against the oracle.
func (cs *crashSim) evalImage(im image, where string, class string, durable, executed int, inside bool) {
	cs.st.images++
	h := im.hash()
	if cs.seen[h] {
		return
	}
	cs.seen[h] = true
	cs.st.distinct++
	cs.st.labels["class:"+class]++
	if inside {
		cs.st.insideRound++
		cs.st.labels["inside-round-with-durable-prefix"]++
	}
	if len(cs.st.samples) < 3 && inside && cs.st.distinct%17 == 3 {
		var parts []string
		for n, b := range im {
			parts = append(parts, fmt.Sprintf("%s(%d)", n, len(b)))
		}
		sort.Strings(parts)
		cs.st.samples = append(cs.st.samples, fmt.Sprintf("crash %s [%s]: files %s; durable prefix %d of %d executed", where, class, strings.Join(parts, ","), durable, executed))
	}
	for _, ro := range []bool{false, true} {
		if ro && cs.st.distinct%4 != 0 {
			continue // ReadOnly reopen on a quarter of the images
		}
		tree, err, pan := cs.openImage(im, ro)
		mode := "default options"
		if ro {
			mode = "ReadOnly"
		}
		if pan != nil {
			cs.fail(class+"/panic", fmt.Sprintf("crash %s (%s): reopening the image (%s) panics: %v", where, class, mode, pan))
			return
		}
		if err != nil {
			e := err.Error()
			if i := strings.Index(e, "dir:"); i > 0 {
				e = e[:i]
			}
			cs.fail(class+"/open-error:"+e, fmt.Sprintf("crash %s (%s): reopening the image (%s) fails: %v [%s]", where, class, mode, err, imageListing(im)))
			return
		}
		match := -1
		for p := executed; p >= 0; p-- {
			if p < len(cs.states) && storeEqual(tree, cs.states[p]) {
				match = p
				break
			}
		}
		if match < 0 {
			ref := cs.states[durable]
			cs.fail(class+"/mixture", fmt.Sprintf("crash %s (%s): reopened content equals no prefix of the %d executed batches (durable prefix %d): vs durable state: %s", where, class, executed, durable, tree.Diff(ref, "img")))
			return
		}
		if match < durable && !storeEqual(tree, cs.states[durable]) {
			cs.fail(class+"/lost-durable", fmt.Sprintf("crash %s (%s): reopened content is the state after %d batches, but a synced round had covered %d", where, class, match, durable))
			return
		}
	}
}

func imageListing(im image) string {
	var parts []string
	for n, b := range im {
		parts = append(parts, fmt.Sprintf("%s(%d)", n, len(b)))
	}
	sort.Strings(parts)
	return strings.Join(parts, ",")
}

// run enumerates crash points and images.
func (cs *crashSim) run() {
	files := map[string]*fileSim{}
	executed, durable := 0, 0
	inRound := false // between the first write after a round mark and the next round mark
	maskI := 0
	nextMask := func() uint64 {
		if len(cs.extra.Masks) == 0 {
			return 0x5a5a5a5a5a5a5a5a
		}
		m := cs.extra.Masks[maskI%len(cs.extra.Masks)]
		maskI++
		return m
	}
	snapshotAll := func(view func(f *fileSim) []byte) image {
		im := image{}
		for n, f := range files {
			if f.exists {
				im[n] = view(f)
			}
		}
		return im
	}
	for c := 0; c <= len(cs.trace); c++ {
		// ---- images for a crash just before operation c ----
		where := fmt.Sprintf("before trace op %d/%d", c, len(cs.trace))
		if c < len(cs.trace) {
			op := cs.trace[c]
			where += fmt.Sprintf(" (%s %s@%d)", op.Kind, op.Name, op.Off)
		}
		interesting := c == len(cs.trace)
		if c < len(cs.trace) {
			k := cs.trace[c].Kind
			interesting = k == "write" || k == "sync" || k == "syncdone" || k == "open" || k == "unlink" || k == "mark" || k == "close"
		}
		if interesting && len(cs.trace) > 400 && c < len(cs.trace)-60 && c%25 != 0 {
			interesting = false // long traces: every 25th crash point, and all of the last 60
		}
		if interesting {
			inside := inRound && durable > 0
			// A. process kill: everything completed is there
			cs.evalImage(snapshotAll(func(f *fileSim) []byte { return f.current }), where, "kill", durable, executed, inside)
			// torn in-flight write
			if c < len(cs.trace) && cs.trace[c].Kind == "write" && !cs.trace[c].Err {
				op := cs.trace[c]
				if f := files[op.Name]; f != nil && f.exists && len(op.Data) > 0 {
					cuts := map[int]bool{1: true, len(op.Data) - 1: true}
					for b := blockSize - int(op.Off%blockSize); b < len(op.Data); b += blockSize {
						cuts[b] = true
					}
					for _, tb := range cs.extra.Tears {
						if tb > 0 && tb < len(op.Data) {
							cuts[tb] = true
						}
					}
					var cl []int
					for x := range cuts {
						if x > 0 && x < len(op.Data) {
							cl = append(cl, x)
						}
					}
					sort.Ints(cl)
					if len(cl) > 12 {
						cl = append(cl[:6], cl[len(cl)-6:]...)
					}
					for _, cut := range cl {
						im := snapshotAll(func(f *fileSim) []byte { return f.current })
						im[op.Name] = applyAt(append([]byte{}, f.current...), op.Off, op.Data[:cut])
						cls := "torn-write"
						if isFooterWrite(op.Data) {
							cls = "torn-footer"
						}
						cs.evalImage(im, where+fmt.Sprintf(" torn at %d/%d", cut, len(op.Data)), cls, durable, executed, true && durable > 0)
					}
				}
			}
			// B. power loss: unsynced pieces reach the disk as any subset
			if !cs.noSync {
				for name, f := range files {
					if !f.exists {
						continue
					}
					pend := f.pending
					if c < len(cs.trace) && cs.trace[c].Kind == "write" && cs.trace[c].Name == name && !cs.trace[c].Err {
						pend = append(append([]piece{}, pend...), splitBlocks(cs.trace[c].Off, cs.trace[c].Data)...)
					}
					if len(pend) == 0 {
						continue
					}
					var masks []uint64
					n := len(pend)
					if n <= 10 {
						for m := uint64(0); m < 1<<uint(n); m++ {
							masks = append(masks, m)
						}
						cs.st.labels["subsets-exhaustive"]++
					} else {
						all := uint64(1)<<uint(min(n, 63)) - 1
						masks = append(masks, 0, all, all&^1, uint64(1)<<uint(min(n, 63)-1), 0x5555555555555555&all, 0xaaaaaaaaaaaaaaaa&all)
						for k := 1; k < min(n, 63); k += max(1, n/8) {
							masks = append(masks, uint64(1)<<uint(k)-1)
						}
						for k := 0; k < 6; k++ {
							masks = append(masks, nextMask()&all)
						}
						cs.st.labels["subsets-sampled"]++
					}
					for _, m := range masks {
						content := append([]byte{}, f.durable...)
						natural := len(f.durable)
						for i, pc := range pend {
							if i < 63 && m&(1<<uint(i)) != 0 || (i >= 63 && m&1 != 0) {
								content = applyAt(content, pc.off, pc.data)
								if e := int(pc.off) + len(pc.data); e > natural {
									natural = e
								}
							}
						}
						im := snapshotAll(func(g *fileSim) []byte { return g.current })
						im[name] = content[:natural]
						cs.evalImage(im, where+fmt.Sprintf(" power-loss mask %x of %d pieces in %s", m, n, name), "power-loss", durable, executed, inside || len(pend) > 0 && durable > 0)
						// length variant: the file already has its intended length
						if len(f.current) > natural {
							im2 := snapshotAll(func(g *fileSim) []byte { return g.current })
							full := make([]byte, len(f.current))
							copy(full, content)
							im2[name] = full
							cs.evalImage(im2, where+fmt.Sprintf(" power-loss mask %x (full length) in %s", m, name), "power-loss-full-length", durable, executed, inside || durable > 0)
						}
					}
				}
			}
		}
		if c == len(cs.trace) {
			break
		}
		// ---- apply operation c ----
		op := cs.trace[c]
		switch op.Kind {
		case "open":
			if op.Flags&os.O_CREATE != 0 && !op.Err {
				files[op.Name] = &fileSim{exists: true}
			}
		case "write":
			if f := files[op.Name]; f != nil && len(op.Data) > 0 {
				f.current = applyAt(f.current, op.Off, op.Data)
				f.pending = append(f.pending, splitBlocks(op.Off, op.Data)...)
				if op.Off > 0 {
					inRound = true
				}
			}
		case "syncdone":
			if f := files[op.Name]; f != nil {
				f.durable = append([]byte{}, f.current...)
				f.pending = nil
			}
		case "unlink":
			if f := files[op.Name]; f != nil {
				f.exists = false
			}
		case "mark":
			if strings.HasPrefix(op.Note, "b:") {
				executed, _ = strconv.Atoi(op.Note[2:])
			} else if strings.HasPrefix(op.Note, "v:") {
				// a completed SnapshotRevert always syncs
				k, _ := strconv.Atoi(op.Note[2:])
				durable = k
				inRound = false
			} else if strings.HasPrefix(op.Note, "r:") {
				// A round that completed with syncing enabled is durable: that
				// is the property's own definition.  (If the library forgot a
				// sync, the power-loss images below that lack the unsynced
				// pieces fall short of this prefix and are reported.)
				k, _ := strconv.Atoi(op.Note[2:])
				if !cs.noSync && k > durable {
					durable = k
				}
				inRound = false
			}
		}
	}
}

func min(a, b int) int {
	if a < b {
		return a
	}
	return b
}
func max(a, b int) int {
	if a > b {
		return a
	}
	return b
}

// RunC05 runs the workload once under the recording file layer and then
// enumerates crash images from the trace.
func RunC05(t TB, p *Program) *crashStats {
	journal(p)
	var x C05Extra
	if len(p.Extra) > 0 {
		json.Unmarshal(p.Extra, &x)
	}
	e := NewEnv(t, p)
	defer e.Cleanup()
	e.Dir = newCaseDir()
	e.FS = NewFS(e.Dir)
	e.FS.Record(true)
	// all is the global timeline of reference states; offset maps the Env's
	// local state index to it (a revert starts a new local history).
	all := []*Node{NewNode()}
	offset := 0
	reverts := 0
	e.OnRound = func() { e.FS.Mark(fmt.Sprintf("r:%d", offset+e.Persisted)) }
	e.Open()
	for _, op := range p.Ops {
		switch op.Kind {
		case "revert":
			if !e.Drain() {
				e.Failf("workload: persistence does not catch up: %v", e.OnErrors())
			}
			e.CloseColl()
			e.FS.HarnessBegin()
			cur, err := e.Store.Snapshot()
			for d := 0; err == nil && cur != nil && d < op.N; d++ {
				var prev moss.Snapshot
				prev, err = e.Store.SnapshotPrevious(cur)
				if prev == nil {
					break
				}
				cur.Close()
				cur = prev
			}
			var target *Node
			if err == nil && cur != nil {
				target, _ = ReadTree(cur)
			}
			if target != nil {
				// from here on a crash may expose the revert target
				all = append(all, target.Clone())
				e.FS.Mark(fmt.Sprintf("b:%d", len(all)-1))
				err = e.Store.SnapshotRevert(cur)
			}
			if cur != nil {
				cur.Close()
			}
			e.FS.HarnessEnd()
			if target != nil && err == nil {
				reverts++
				offset = len(all) - 1
				e.Model = target.Clone()
				e.States = []*Node{e.Model.Clone()}
				e.Persisted = 0
				e.FS.Mark(fmt.Sprintf("v:%d", offset))
			} else if target != nil {
				// the revert was refused: the store keeps its content, which is
				// what the next states build on
				all = append(all, e.Model.Clone())
				e.FS.Mark(fmt.Sprintf("b:%d", len(all)-1))
				offset = len(all) - 1 - (len(e.States) - 1)
			}
			e.reopenCollOnStore()
		case "batch":
			e.Exec(op.B)
			all = append(all, e.Model.Clone())
			e.FS.Mark(fmt.Sprintf("b:%d", len(all)-1))
		case "mstep":
			e.MergerStep(op.MKind)
			e.settlePersister()
		case "reopen":
			if !e.Drain() {
				e.Failf("workload: persistence does not catch up: %v", e.OnErrors())
			}
			e.CloseAll()
			waitDirSettled(e.Dir, 300e6)
			e.FS.observeDir()
			e.openWith(e.Cfg, true)
		}
	}
	e.Drain()
	e.CloseAll()
	waitDirSettled(e.Dir, 300e6)
	e.FS.observeDir()
	trace := e.FS.Trace()
	if len(trace) > 1500 {
		trace = trace[:1500]
	}
	st := &crashStats{labels: map[string]int{}, failures: map[string]string{}}
	cs := &crashSim{t: t, p: p, trace: trace, states: all, noSync: p.Cfg.NoSync, extra: x,
		imgRoot: e.Dir + ".crash", seen: map[[32]byte]bool{}, st: st, mergeOp: &verifMergeOp{}}
	os.MkdirAll(cs.imgRoot, 0700)
	defer os.RemoveAll(cs.imgRoot)
	cs.run()
	st.labels["trace-ops"] = len(trace)
	if reverts > 0 {
		st.labels["workload-with-revert"] = 1
	}
	if len(st.failures) > 0 {
		var sigs []string
		for s := range st.failures {
			sigs = append(sigs, s)
		}
		sort.Strings(sigs)
		var b bytes.Buffer
		fmt.Fprintf(&b, "%d failure signature(s) over %d distinct crash images: ", len(sigs), st.distinct)
		for i, s := range sigs {
			if i >= 4 {
				break
			}
			fmt.Fprintf(&b, "[%s] %s; ", s, clip(st.failures[s], 700))
		}
		msg := b.String()
		recordFailure(p, msg)
		t.Logf("program: %s", p.Compact())
		t.Fatalf("%s", msg)
	}
	return st
}
