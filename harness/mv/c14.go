package mv

import (
	"bytes"
	"encoding/json"
	"fmt"
	"os"
	"sort"

	"github.com/couchbase/moss"
)

// C14Case: persisted key sets read back under different key-index settings.
type C14Case struct {
	Segments [][]KV   `json:"segments"` // one batch per persisted segment
	Compact  bool     `json:"compact"`  // additionally fully compact before reading
	Opts     [][2]int `json:"opts"`     // {SegmentKeysIndexMaxBytes, SegmentKeysIndexMinKeyBytes}
	Probes   [][]byte `json:"probes"`
}

type c14Stats struct {
	indexed    int // option sets for which an index is (estimated to be) in use
	optionSets int
	probes     int
}

func (c *C14Case) model() *Node {
	m := NewNode()
	for _, seg := range c.Segments {
		m.Apply(&Batch{Ops: seg})
	}
	return m
}

// estimateIndexed: documented formula - an index is built when the segment's
// key bytes reach minKeyBytes and quota/(avgKey+4) >= 1; it is non-trivial
// with >= 2 indexed keys.  This is an estimate from public inputs only.
func estimateIndexed(seg []KV, maxBytes, minKeyBytes int) bool {
	if maxBytes == 0 {
		maxBytes = moss.DefaultStoreOptions.SegmentKeysIndexMaxBytes
	}
	if minKeyBytes == 0 {
		minKeyBytes = moss.DefaultStoreOptions.SegmentKeysIndexMinKeyBytes
	}
	if maxBytes < 0 || len(seg) == 0 {
		return false
	}
	tot := 0
	for _, kv := range seg {
		tot += len(kv.K)
	}
	if tot < minKeyBytes {
		return false
	}
	avg := tot / len(seg)
	n := maxBytes / (avg + 4)
	return n >= 2 && len(seg) >= 3
}

func readAllRange(snap moss.Snapshot, s, e []byte) ([][2][]byte, error) {
	it, err := snap.StartIterator(s, e, moss.IteratorOptions{})
	if err != nil {
		return nil, err
	}
	if it == nil {
		return nil, fmt.Errorf("nil iterator")
	}
	defer it.Close()
	var out [][2][]byte
	for {
		k, v, err := it.Current()
		if err == moss.ErrIteratorDone {
			return out, nil
		}
		if err != nil {
			return nil, err
		}
		out = append(out, [2][]byte{append([]byte{}, k...), append([]byte{}, v...)})
		if err := it.Next(); err != nil {
			if err == moss.ErrIteratorDone {
				return out, nil
			}
			return nil, err
		}
	}
}

func modelRange(m *Node, s, e []byte) [][2][]byte {
	var out [][2][]byte
	mi := NewModelIter(m, s, e)
	for !mi.Done() {
		k, v, _ := mi.Current()
		out = append(out, [2][]byte{k, v})
		mi.Next()
	}
	return out
}

// summarize keeps, for long ranges, the first three entries, the last entry
// and the count (the key index only decides where a range starts and stops).
func summarize(a [][2][]byte) [][2][]byte {
	if len(a) <= 8 {
		return a
	}
	out := append([][2][]byte{}, a[:3]...)
	out = append(out, a[len(a)-1], [2][]byte{[]byte(fmt.Sprintf("#count=%d", len(a))), nil})
	return out
}

func sameEntries(a, b [][2][]byte) string {
	a, b = summarize(a), summarize(b)
	for i := 0; i < len(a) || i < len(b); i++ {
		if i >= len(a) {
			return fmt.Sprintf("misses %q", b[i][0])
		}
		if i >= len(b) {
			return fmt.Sprintf("extra %q", a[i][0])
		}
		if !bytes.Equal(a[i][0], b[i][0]) {
			return fmt.Sprintf("position %d: key %q, want %q", i, a[i][0], b[i][0])
		}
		if !bytes.Equal(a[i][1], b[i][1]) {
			return fmt.Sprintf("key %q: value %q, want %q", a[i][0], short(a[i][1]), short(b[i][1]))
		}
	}
	return ""
}

// RunC14 executes one case; failures are reported through t.
func RunC14(t TB, p *Program) *c14Stats {
	journal(p)
	var c C14Case
	if err := json.Unmarshal(p.Extra, &c); err != nil {
		t.Fatalf("bad C14 case: %v", err)
	}
	st := &c14Stats{}
	fail := func(format string, args ...interface{}) {
		msg := fmt.Sprintf(format, args...)
		recordFailure(p, msg)
		t.Logf("case: %d segments compact=%v opts=%v", len(c.Segments), c.Compact, c.Opts)
		t.Fatalf("%s", msg)
	}
	// 1. build the directory: one persisted segment per batch
	build := &Program{Prop: "C14", Cfg: Config{Backing: "store", Compaction: 0}}
	e := NewEnv(t, build)
	e.Prog = p
	defer e.Cleanup()
	e.Open()
	for _, seg := range c.Segments {
		e.Exec(&Batch{Ops: seg})
		e.MergerStep("")
		if !e.settlePersister() || e.Dirty() {
			e.Drain()
		}
	}
	if !e.Drain() {
		fail("building: persistence does not catch up: %v", e.OnErrors())
	}
	e.CloseAll()
	if c.Compact {
		cfg := e.Cfg
		cfg.Compaction = 2
		e.openWith(cfg, true)
		e.MergerStep("from-idle-merger")
		e.Drain()
		e.CloseAll()
		waitDirSettled(e.Dir, 500e6)
	}
	model := c.model()
	// 2. probes and ranges
	probes := c.Probes
	for k := range model.KV {
		probes = append(probes, []byte(k))
	}
	sort.Slice(probes, func(i, j int) bool { return bytes.Compare(probes[i], probes[j]) < 0 })
	type obs struct {
		gets   [][]byte
		ranges [][][2][]byte
	}
	read := func(maxB, minB int) (*obs, error) {
		cp := e.Dir + ".opt"
		os.RemoveAll(cp)
		if err := copyDir(e.Dir, cp); err != nil {
			return nil, err
		}
		defer os.RemoveAll(cp)
		so := moss.StoreOptions{SegmentKeysIndexMaxBytes: maxB, SegmentKeysIndexMinKeyBytes: minB}
		s, coll, err := moss.OpenStoreCollection(cp, so, moss.StorePersistOptions{})
		if err != nil {
			return nil, fmt.Errorf("open with index options (%d,%d): %v", maxB, minB, err)
		}
		defer s.Close()
		defer coll.Close()
		snap, err := s.Snapshot()
		if err != nil || snap == nil {
			return nil, fmt.Errorf("Store.Snapshot: %v", err)
		}
		defer snap.Close()
		o := &obs{}
		for _, k := range probes {
			v, err := snap.Get(k, moss.ReadOptions{})
			if err != nil {
				return nil, fmt.Errorf("Get(%q): %v", k, err)
			}
			o.gets = append(o.gets, v)
		}
		// ranges: [p,nil) and [nil,p) for every probe, [p,q) for neighbours
		for i, k := range probes {
			r1, err := readAllRange(snap, k, nil)
			if err != nil {
				return nil, err
			}
			r2, err := readAllRange(snap, nil, k)
			if err != nil {
				return nil, err
			}
			o.ranges = append(o.ranges, r1, r2)
			if i+2 < len(probes) {
				r3, err := readAllRange(snap, k, probes[i+2])
				if err != nil {
					return nil, err
				}
				o.ranges = append(o.ranges, r3)
			}
		}
		return o, nil
	}
	check := func(o *obs, what string) {
		for i, k := range probes {
			wv, ok := model.KV[string(k)]
			g := o.gets[i]
			if !ok && g != nil {
				fail("%s: Get(%q) = %q, want nil (absent)", what, k, short(g))
			}
			if ok && (g == nil || !bytes.Equal(g, wv)) {
				fail("%s: Get(%q) = %q (nil=%v), want %q", what, k, short(g), g == nil, short(wv))
			}
		}
		ri := 0
		for i, k := range probes {
			if d := sameEntries(o.ranges[ri], modelRange(model, k, nil)); d != "" {
				fail("%s: range [%q,nil): %s", what, k, d)
			}
			if d := sameEntries(o.ranges[ri+1], modelRange(model, nil, k)); d != "" {
				fail("%s: range [nil,%q): %s", what, k, d)
			}
			ri += 2
			if i+2 < len(probes) {
				if d := sameEntries(o.ranges[ri], modelRange(model, k, probes[i+2])); d != "" {
					fail("%s: range [%q,%q): %s", what, k, probes[i+2], d)
				}
				ri++
			}
		}
	}
	base, err := read(0, 0) // defaults: the 10 MB threshold keeps the index off
	if err != nil {
		fail("baseline (default options): %v", err)
	}
	check(base, "index off (default options)")
	for _, opt := range c.Opts {
		o, err := read(opt[0], opt[1])
		if err != nil {
			fail("%v", err)
		}
		what := fmt.Sprintf("SegmentKeysIndexMaxBytes=%d SegmentKeysIndexMinKeyBytes=%d", opt[0], opt[1])
		check(o, what)
		st.optionSets++
		st.probes += len(probes)
		segs := c.Segments
		if c.Compact {
			var live []KV
			for _, k := range model.Keys() {
				live = append(live, KV{K: []byte(k)})
			}
			segs = [][]KV{live}
		}
		for _, seg := range segs {
			if estimateIndexed(seg, opt[0], opt[1]) {
				st.indexed++
				break
			}
		}
	}
	return st
}
