package mv

import (
	"bytes"
	"fmt"
	"runtime/debug"
	"sort"

	"github.com/couchbase/moss"
)

// ReadOpts controls how a snapshot is read for comparison.
type ReadOpts struct {
	// RelaxKeyless (store-side comparisons only, while the open finding F14e
	// still reproduces): when the reference holds no key at any level, only
	// require that the store holds no key either - child collections that are
	// empty all the way down are not persisted into a store without segments.
	RelaxKeyless bool
	NoCopy    bool
	SkipGets  bool
	Probes    [][]byte // keys to Get (present or absent)
	ChildPool []string // child names to probe for absence
}

// CompareSnapshot checks that snap serves exactly want: every probe key by
// Get (value and nil-ness), a full ascending iteration as a sequence, the
// child names as a set and every child recursively.  It returns "" when
// equal, else a description of the first difference.  Faults while reading
// (unmapped memory) are reported as differences.
func CompareSnapshot(snap moss.Snapshot, want *Node, ro ReadOpts, path string) (diff string) {
	defer func() {
		if r := recover(); r != nil {
			diff = fmt.Sprintf("%s: panic/fault while reading: %v", path, r)
		}
	}()
	old := debug.SetPanicOnFault(true)
	defer debug.SetPanicOnFault(old)
	return compareSnapshot(snap, want, ro, path)
}

func nodeKeyless(n *Node) bool {
	if len(n.KV) > 0 {
		return false
	}
	for _, c := range n.Children {
		if !nodeKeyless(c) {
			return false
		}
	}
	return true
}

func compareSnapshot(snap moss.Snapshot, want *Node, ro ReadOpts, path string) string {
	if snap == nil {
		return path + ": snapshot is nil"
	}
	if want == nil {
		return path + ": model has no such collection"
	}
	if ro.RelaxKeyless && nodeKeyless(want) {
		got, err := readTree(snap)
		if err != nil {
			return fmt.Sprintf("%s: %v", path, err)
		}
		if !nodeKeyless(got) {
			return fmt.Sprintf("%s: the reference holds no key at all, the store does: %s", path, got.String())
		}
		relaxedKeyless++
		return ""
	}
	// full iteration
	it, err := snap.StartIterator(nil, nil, moss.IteratorOptions{})
	if err != nil {
		return fmt.Sprintf("%s: StartIterator: %v", path, err)
	}
	if it == nil {
		return path + ": StartIterator returned nil iterator"
	}
	keys := want.Keys()
	i := 0
	var prev []byte
	havePrev := false
	for {
		k, v, err := it.Current()
		if err == moss.ErrIteratorDone {
			break
		}
		if err != nil {
			it.Close()
			return fmt.Sprintf("%s: iterator Current: %v", path, err)
		}
		if havePrev && bytes.Compare(prev, k) >= 0 {
			it.Close()
			return fmt.Sprintf("%s: iteration not strictly ascending: %q then %q", path, prev, k)
		}
		if i >= len(keys) {
			it.Close()
			return fmt.Sprintf("%s: iteration yields extra key %q=%q (model has %d keys)", path, k, short(v), len(keys))
		}
		if string(k) != keys[i] {
			it.Close()
			if bytes.Compare(k, []byte(keys[i])) > 0 {
				return fmt.Sprintf("%s: iteration misses key %q (got %q next)", path, keys[i], k)
			}
			return fmt.Sprintf("%s: iteration yields unexpected key %q=%q (model next is %q)", path, k, short(v), keys[i])
		}
		wv := want.KV[keys[i]]
		if v == nil {
			it.Close()
			return fmt.Sprintf("%s: iteration value of %q is nil, want %q", path, k, short(wv))
		}
		if !bytes.Equal(v, wv) {
			it.Close()
			return fmt.Sprintf("%s: iteration value of %q = %q, want %q", path, k, short(v), short(wv))
		}
		prev = append(prev[:0], k...)
		havePrev = true
		i++
		err = it.Next()
		if err == moss.ErrIteratorDone {
			break
		}
		if err != nil {
			it.Close()
			return fmt.Sprintf("%s: iterator Next: %v", path, err)
		}
	}
	if _, _, err := it.Current(); err != moss.ErrIteratorDone {
		it.Close()
		return fmt.Sprintf("%s: iterator Current after end: %v, want ErrIteratorDone", path, err)
	}
	it.Close()
	if i < len(keys) {
		return fmt.Sprintf("%s: iteration ended after %d keys, misses %q", path, i, keys[i])
	}
	// point lookups
	if !ro.SkipGets {
		seen := map[string]bool{}
		get := func(k []byte) string {
			if seen[string(k)] {
				return ""
			}
			seen[string(k)] = true
			v, err := snap.Get(k, moss.ReadOptions{NoCopyValue: ro.NoCopy})
			if err != nil {
				return fmt.Sprintf("%s: Get(%q): %v", path, k, err)
			}
			wv, ok := want.KV[string(k)]
			if !ok {
				if v != nil {
					return fmt.Sprintf("%s: Get(%q) = %q, want nil (absent)", path, k, short(v))
				}
				return ""
			}
			if v == nil {
				return fmt.Sprintf("%s: Get(%q) = nil, want %q", path, k, short(wv))
			}
			if !bytes.Equal(v, wv) {
				return fmt.Sprintf("%s: Get(%q) = %q, want %q", path, k, short(v), short(wv))
			}
			return ""
		}
		for _, k := range keys {
			if d := get([]byte(k)); d != "" {
				return d
			}
		}
		for _, k := range ro.Probes {
			if d := get(k); d != "" {
				return d
			}
		}
	}
	// children
	names, err := snap.ChildCollectionNames()
	if err != nil {
		return fmt.Sprintf("%s: ChildCollectionNames: %v", path, err)
	}
	sort.Strings(names)
	wn := want.ChildNames()
	if fmt.Sprint(names) != fmt.Sprint(wn) {
		return fmt.Sprintf("%s: child names %v, want %v", path, names, wn)
	}
	for _, name := range wn {
		cs, err := snap.ChildCollectionSnapshot(name)
		if err != nil {
			return fmt.Sprintf("%s: ChildCollectionSnapshot(%q): %v", path, name, err)
		}
		if cs == nil {
			return fmt.Sprintf("%s: ChildCollectionSnapshot(%q) = nil for a listed child", path, name)
		}
		d := compareSnapshot(cs, want.Children[name], ro, path+"/"+name)
		cs.Close()
		if d != "" {
			return d
		}
	}
	for _, name := range ro.ChildPool {
		if _, ok := want.Children[name]; ok {
			continue
		}
		cs, err := snap.ChildCollectionSnapshot(name)
		if err != nil {
			return fmt.Sprintf("%s: ChildCollectionSnapshot(%q) of unknown child: %v", path, name, err)
		}
		if cs != nil {
			cs.Close()
			return fmt.Sprintf("%s: ChildCollectionSnapshot(%q) non-nil for a child that does not exist", path, name)
		}
	}
	return ""
}

// ReadTree reads a snapshot completely into a model tree (iteration only).
func ReadTree(snap moss.Snapshot) (n *Node, err error) {
	defer func() {
		if r := recover(); r != nil {
			err = fmt.Errorf("panic/fault while reading: %v", r)
		}
	}()
	old := debug.SetPanicOnFault(true)
	defer debug.SetPanicOnFault(old)
	return readTree(snap)
}

func readTree(snap moss.Snapshot) (*Node, error) {
	if snap == nil {
		return nil, fmt.Errorf("nil snapshot")
	}
	n := NewNode()
	it, err := snap.StartIterator(nil, nil, moss.IteratorOptions{})
	if err != nil {
		return nil, err
	}
	if it == nil {
		return nil, fmt.Errorf("nil iterator")
	}
	for {
		k, v, err := it.Current()
		if err == moss.ErrIteratorDone {
			break
		}
		if err != nil {
			it.Close()
			return nil, err
		}
		if _, dup := n.KV[string(k)]; dup {
			it.Close()
			return nil, fmt.Errorf("iteration yields key %q twice", k)
		}
		if v == nil {
			it.Close()
			return nil, fmt.Errorf("iteration yields nil value for key %q", k)
		}
		n.KV[string(k)] = append([]byte{}, v...)
		err = it.Next()
		if err == moss.ErrIteratorDone {
			break
		}
		if err != nil {
			it.Close()
			return nil, err
		}
	}
	it.Close()
	names, err := snap.ChildCollectionNames()
	if err != nil {
		return nil, err
	}
	for _, name := range names {
		cs, err := snap.ChildCollectionSnapshot(name)
		if err != nil {
			return nil, err
		}
		if cs == nil {
			return nil, fmt.Errorf("listed child %q has nil snapshot", name)
		}
		cn, err := readTree(cs)
		cs.Close()
		if err != nil {
			return nil, err
		}
		n.Children[name] = cn
	}
	return n, nil
}

// ---------------------------------------------------------------
// Env-level checks

var relaxedKeyless int // comparisons answered by the RelaxKeyless rule (reported in the evidence)

func (e *Env) readOpts() ReadOpts {
	return ReadOpts{Probes: e.universe, ChildPool: childPool}
}

// storeReadOpts: options for comparisons of what the store / a reopened
// directory holds.
func (e *Env) storeReadOpts() ReadOpts {
	ro := e.readOpts()
	ro.RelaxKeyless = excluded("struct-only-into-empty-store")
	return ro
}

// CheckColl: a fresh snapshot of the collection must equal the model.
func (e *Env) CheckColl(when string) {
	snap, err := e.Coll.Snapshot()
	if err != nil {
		e.Failf("%s: Collection.Snapshot: %v", when, err)
	}
	d := CompareSnapshot(snap, e.Model, e.readOpts(), "coll")
	snap.Close()
	if d != "" {
		e.Failf("%s: collection differs from reference: %s", when, d)
	}
}

// ExpectedStore is what the lower level must hold at a quiescent moment.
func (e *Env) ExpectedStore() *Node { return e.States[e.Persisted] }

// CheckStore: the store's own snapshot must equal States[Persisted].  While
// a round is held in the middle (its footer may or may not be published yet)
// the state that round is carrying is accepted as well.
func (e *Env) CheckStore(when string) {
	switch e.Cfg.Backing {
	case "store":
		snap, err := e.Store.Snapshot()
		if err != nil {
			e.Failf("%s: Store.Snapshot: %v", when, err)
		}
		if snap == nil {
			e.Failf("%s: Store.Snapshot returned nil", when)
		}
		d := CompareSnapshot(snap, e.ExpectedStore(), e.storeReadOpts(), "store")
		if d != "" && e.pState == pHeld && len(e.base) > 0 {
			if d2 := CompareSnapshot(snap, e.States[e.base[len(e.base)-1]], e.storeReadOpts(), "store"); d2 == "" {
				d = ""
			}
		}
		snap.Close()
		if d != "" {
			e.Failf("%s: store content differs from reference after %d of %d batches: %s",
				when, e.Persisted, len(e.States)-1, d)
		}
	case "ll":
		if d := e.LL.Root().Diff(e.ExpectedStore(), "ll"); d != "" {
			e.Failf("%s: lower level differs from reference after %d of %d batches: %s",
				when, e.Persisted, len(e.States)-1, d)
		}
	}
}

// storeEqual compares what a store / reopened directory holds with a
// reference state; while the open finding F14e still reproduces, two trees
// that hold no key at any level count as equal (see ReadOpts.RelaxKeyless).
func storeEqual(got, want *Node) bool {
	if got.Equal(want) {
		return true
	}
	if excluded("struct-only-into-empty-store") && nodeKeyless(got) && nodeKeyless(want) {
		relaxedKeyless++
		return true
	}
	return false
}
