package mv

import (
	"encoding/json"
	"fmt"
	"os"
	"sort"
	"sync"
)

// ShardOut is what one shard process reports to the driver.
type ShardOut struct {
	Prop        string         `json:"prop"`
	Evaluations int            `json:"evaluations"`
	Nontrivial  []string       `json:"nontrivial"` // distinct hashes
	Labels      map[string]int `json:"labels"`
	Samples     []string       `json:"samples"`
	Excluded    int            `json:"excluded"`
	Extra       map[string]int `json:"extra"`
	Rule        string         `json:"rule"`
	Known       []string       `json:"known"` // KNOWN-FINDING lines
	Notes       []string       `json:"notes"`
}

type collector struct {
	mu         sync.Mutex
	out        ShardOut
	nontrivial map[string]struct{}
	ntSamples  int
}

var Col = &collector{nontrivial: map[string]struct{}{}, out: ShardOut{Labels: map[string]int{}, Extra: map[string]int{}}}

func (c *collector) SetProp(prop, rule string) {
	c.mu.Lock()
	c.out.Prop = prop
	c.out.Rule = rule
	c.mu.Unlock()
}

// Case records one evaluated case.
func (c *collector) Case(hash string, compact func() string, nontrivial bool, labels map[string]int, excluded int) {
	c.mu.Lock()
	defer c.mu.Unlock()
	c.out.Evaluations++
	c.out.Excluded += excluded
	for l, n := range labels {
		if n > 0 {
			c.out.Labels[l]++
		}
	}
	if nontrivial {
		if _, ok := c.nontrivial[hash]; !ok {
			c.nontrivial[hash] = struct{}{}
			if c.ntSamples < 4 && (len(c.nontrivial)%97 == 1) {
				c.ntSamples++
				c.out.Samples = append(c.out.Samples, compact())
			}
		}
	} else if len(c.out.Samples) == 0 {
		c.out.Samples = append(c.out.Samples, compact())
	}
}

// CaseN records a case that stands for many evaluations (crash images, fault
// runs): n evaluations of which nt were distinct and non-trivial.
func (c *collector) CaseN(hash string, n, nt int, samples []string, labels map[string]int) {
	c.mu.Lock()
	defer c.mu.Unlock()
	c.out.Evaluations += n
	for l, v := range labels {
		c.out.Labels[l] += v
	}
	for i := 0; i < nt; i++ {
		c.nontrivial[fmt.Sprintf("%s/%d", hash, i)] = struct{}{}
	}
	for _, s := range samples {
		if len(c.out.Samples) < 4 {
			c.out.Samples = append(c.out.Samples, s)
		}
	}
}

func (c *collector) AddExtra(k string, n int) {
	c.mu.Lock()
	c.out.Extra[k] += n
	c.mu.Unlock()
}

func (c *collector) Known(line string) {
	c.mu.Lock()
	c.out.Known = append(c.out.Known, line)
	c.mu.Unlock()
}

func (c *collector) Note(line string) {
	c.mu.Lock()
	if len(c.out.Notes) < 50 {
		c.out.Notes = append(c.out.Notes, line)
	}
	c.mu.Unlock()
}

// Flush writes the shard report to $VERIF_OUT.
func (c *collector) Flush() {
	path := os.Getenv("VERIF_OUT")
	if path == "" {
		return
	}
	c.mu.Lock()
	defer c.mu.Unlock()
	c.out.Nontrivial = c.out.Nontrivial[:0]
	for h := range c.nontrivial {
		c.out.Nontrivial = append(c.out.Nontrivial, h)
	}
	sort.Strings(c.out.Nontrivial)
	b, _ := json.Marshal(&c.out)
	os.WriteFile(path, b, 0644)
}

// ---------------------------------------------------------------

// FailRecord is the replay file: the failing program plus what failed.
type FailRecord struct {
	Property string   `json:"property"`
	Message  string   `json:"message"`
	Program  *Program `json:"program"`
}

var failMu sync.Mutex
var bestFailLen = -1

// recordFailure keeps the smallest failing program seen by this process in
// $VERIF_FAIL (rapid re-evaluates while shrinking, so the file ends up with
// the minimal program).
func recordFailure(p *Program, msg string) {
	path := os.Getenv("VERIF_FAIL")
	if path == "" || p == nil {
		return
	}
	failMu.Lock()
	defer failMu.Unlock()
	js := p.JSON()
	if bestFailLen >= 0 && len(js) > bestFailLen {
		return
	}
	bestFailLen = len(js)
	rec := FailRecord{Property: p.Prop, Message: msg, Program: p}
	b, _ := json.MarshalIndent(&rec, "", " ")
	os.WriteFile(path, b, 0644)
}

func recordStall(p *Program, msg string) {
	path := os.Getenv("VERIF_FAIL")
	if path == "" {
		return
	}
	rec := FailRecord{Property: p.Prop, Message: msg, Program: p}
	b, _ := json.MarshalIndent(&rec, "", " ")
	os.WriteFile(path+".stall", b, 0644)
	Col.Flush()
}

// journal writes the program about to run, so that a hard crash of the
// process (fault inside a moss goroutine) still leaves a replay.
func journal(p *Program) {
	path := os.Getenv("VERIF_JOURNAL")
	if path == "" {
		return
	}
	rec := FailRecord{Property: p.Prop, Message: "process died while running this program", Program: p}
	b, _ := json.Marshal(&rec)
	os.WriteFile(path, b, 0644)
}

func envInt(name string, def int) int {
	v := os.Getenv(name)
	if v == "" {
		return def
	}
	n := def
	fmt.Sscanf(v, "%d", &n)
	return n
}
