package mv

import (
	"os"
	"strings"
)

// exclusions active for this run (set by the driver while the corresponding
// recorded finding still reproduces).
var activeExcl = func() map[string]bool {
	m := map[string]bool{}
	for _, x := range strings.Split(os.Getenv("VERIF_EXCLUDE"), ",") {
		if x != "" {
			m[x] = true
		}
	}
	return m
}()

func excluded(name string) bool { return activeExcl[name] }

// exclChildren: child collections are generated for this property unless an
// open finding that breaks it for every history with children is active.
func exclChildren(prop string) bool {
	return !excluded("children:" + prop)
}

// applyExclusions narrows a spec by the exclusions that are active.
func applyExclusions(spec *GenSpec) {
	if excluded("child-only-batches") {
		spec.NoChildOnly = true
	}
	if excluded("struct-only-batches") {
		spec.NoStructOnly = true
	}
	if excluded("struct-only-into-empty-store") {
		spec.NoStructOnlyEmpty = true
	}
	if excluded("child-recreate") {
		spec.NoRecreate = true
	}
}
